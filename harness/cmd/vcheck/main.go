// vcheck is the driver behind /verif/check: it rebuilds the monitors of one
// property from /repo's current working tree, runs them as child processes,
// reads their reports, journals, stderr and race logs, classifies every
// violation against /verif/KNOWN_FINDINGS.txt, writes /verif/evidence/<id>.json
// and prints the verdict lines.
//
//	vcheck <id> quick|thorough
//	vcheck <id> --replay <witness file>
//	vcheck --setup            (warm the build cache)
//
// exit 0: held on everything explored (known findings are listed, not alarms)
// exit 1: at least one "VIOLATION property=<id> replay=<path>" line was printed
// exit 2: the check itself is broken / inconclusive (build failure, floor not reached)
package main

import (
	"bytes"
	"encoding/json"
	"fmt"
	"io/ioutil"
	"os"
	"os/exec"
	"path/filepath"
	"regexp"
	"sort"
	"strconv"
	"strings"
	"sync"
	"syscall"
	"time"
)

const verifDir = "/verif"

// outDir is where evidence/ and replays/ are written: /verif unless
// VERIF_OUTDIR redirects them (background sweeps that must not touch the
// committed evidence).
var outDir = func() string {
	if d := os.Getenv("VERIF_OUTDIR"); d != "" {
		return d
	}
	return verifDir
}()
const harnessDir = "/verif/harness"
// repoDir is the tree under test: /repo for every registered command.
// VERIF_REPO points the same machinery at a scratch worktree (used only to try
// seeded changes without touching /repo while other runs use it).
var repoDir = func() string {
	if d := os.Getenv("VERIF_REPO"); d != "" {
		return d
	}
	return "/repo"
}()

type childReport struct {
	Stage       string                   `json:"stage"`
	Batch       int                      `json:"batch"`
	Evaluations int                      `json:"evaluations"`
	NonTrivial  []string                 `json:"nontrivial_hashes"`
	Violations  []violation              `json:"violations"`
	Samples     []interface{}            `json:"samples"`
	Counters    map[string]int           `json:"counters"`
	Notes       map[string]interface{}   `json:"notes"`
	Incon       int                      `json:"inconclusive"`
	Done        bool                     `json:"done"`
	WallS       float64                  `json:"wall_s"`
	Extra       map[string]interface{}   `json:"-"`
	_           []map[string]interface{} `json:"-"`
}

type violation struct {
	Key     string      `json:"key"`
	What    string      `json:"what"`
	Witness interface{} `json:"witness"`
	stage   string
	batch   int
}

type finding struct {
	open     bool
	property string
	key      string
	text     string
}

func readFindings() []finding {
	var out []finding
	b, err := ioutil.ReadFile(filepath.Join(verifDir, "KNOWN_FINDINGS.txt"))
	if err != nil {
		return out
	}
	for _, l := range strings.Split(string(b), "\n") {
		l = strings.TrimSpace(l)
		if l == "" || strings.HasPrefix(l, "#") {
			continue
		}
		f := finding{}
		if strings.HasPrefix(l, "open:") {
			f.open = true
			l = strings.TrimSpace(l[5:])
		} else if strings.HasPrefix(l, "fixed:") {
			l = strings.TrimSpace(l[6:])
		} else {
			continue
		}
		parts := strings.SplitN(l, "::", 2)
		if len(parts) == 2 {
			f.text = strings.TrimSpace(parts[1])
		}
		for _, w := range strings.Fields(parts[0]) {
			if strings.HasPrefix(w, "property=") {
				f.property = w[9:]
			}
			if strings.HasPrefix(w, "key=") {
				f.key = w[4:]
			}
		}
		if !f.open && f.text == "" {
			f.text = l
		}
		out = append(out, f)
	}
	return out
}

func goEnv() []string {
	env := os.Environ()
	env = append(env, "GOFLAGS=-mod=mod", "GOPROXY=off", "GOSUMDB=off", "GOTOOLCHAIN=local", "CGO_ENABLED=1")
	return env
}

func build(st Stage, scratch string) (string, error) {
	bin := filepath.Join(scratch, "bin-"+st.Name)
	var cmd *exec.Cmd
	gcflags := ""
	if st.NoCheckptr {
		gcflags = "-gcflags=all=-d=checkptr=0"
	}
	if st.OverlayPkg != "" {
		// overlay: inject in-package _test.go files into a /repo package.
		ov := map[string]map[string]string{"Replace": {}}
		for target, src := range st.OverlayFiles {
			if strings.HasPrefix(src, "gen:") {
				// "gen:<file under harness>:<package name>": a harness library file injected
				// with its package clause rewritten (the /repo module cannot import the harness)
				parts := strings.SplitN(src[4:], ":", 2)
				b, err := ioutil.ReadFile(filepath.Join(harnessDir, parts[0]))
				if err != nil {
					return "", err
				}
				txt := regexp.MustCompile(`(?m)^package \w+`).ReplaceAllString(string(b), "package "+parts[1])
				gf := filepath.Join(scratch, "gen-"+st.Name+"-"+filepath.Base(target))
				ioutil.WriteFile(gf, []byte(txt), 0644)
				ov["Replace"][filepath.Join(repoDir, target)] = gf
				continue
			}
			ov["Replace"][filepath.Join(repoDir, target)] = filepath.Join(harnessDir, "overlay", src)
		}
		ob, _ := json.Marshal(ov)
		ovf := filepath.Join(scratch, "overlay-"+st.Name+".json")
		ioutil.WriteFile(ovf, ob, 0644)
		args := []string{"test", "-c", "-vet=off", "-tags", "verif", "-overlay", ovf, "-o", bin}
		if st.Race {
			args = append(args, "-race")
		}
		if gcflags != "" {
			args = append(args, gcflags)
		}
		args = append(args, ".")
		cmd = exec.Command("go", args...)
		cmd.Dir = filepath.Join(repoDir, st.OverlayPkg)
	} else {
		args := []string{"build", "-tags", "verif", "-o", bin}
		if st.Race {
			args = append(args, "-race")
		}
		if gcflags != "" {
			args = append(args, gcflags)
		}
		if repoDir != "/repo" {
			// same module, other replace target
			gm, err := ioutil.ReadFile(filepath.Join(harnessDir, "go.mod"))
			if err != nil {
				return "", err
			}
			mf := filepath.Join(scratch, "go.mod")
			ioutil.WriteFile(mf, []byte(strings.Replace(string(gm), "=> /repo", "=> "+repoDir, 1)), 0644)
			gs, _ := ioutil.ReadFile(filepath.Join(harnessDir, "go.sum"))
			ioutil.WriteFile(filepath.Join(scratch, "go.sum"), gs, 0644)
			args = append(args, "-modfile="+mf)
		}
		args = append(args, st.Pkg)
		cmd = exec.Command("go", args...)
		cmd.Dir = harnessDir
	}
	cmd.Env = goEnv()
	out, err := cmd.CombinedOutput()
	if err != nil {
		return "", fmt.Errorf("build of stage %s failed: %v\n%s", st.Name, err, out)
	}
	return bin, nil
}

type childResult struct {
	stage    Stage
	batch    int
	report   *childReport
	stderr   string
	exit     int
	timedOut bool
	journal  string // last journal line
	races    []raceReport
}

type raceReport struct {
	Pair string // function pair, line numbers stripped
	Text string
}

var frameRe = regexp.MustCompile(`(?m)^\s+(\S+)\(.*\n\s+(/\S+\.go):(\d+)`)

func parseRaces(dir, prefix string) []raceReport {
	var out []raceReport
	files, _ := filepath.Glob(filepath.Join(dir, prefix+".*"))
	for _, f := range files {
		b, err := ioutil.ReadFile(f)
		if err != nil {
			continue
		}
		for _, blk := range strings.Split(string(b), "==================") {
			if !strings.Contains(blk, "WARNING: DATA RACE") {
				continue
			}
			// split into stacks: sections separated by blank lines; take the first two
			secs := strings.Split(blk, "\n\n")
			var fns []string
			for _, s := range secs {
				if len(fns) >= 2 {
					break
				}
				head := strings.TrimSpace(s)
				if !(strings.HasPrefix(head, "WARNING: DATA RACE") || strings.HasPrefix(head, "Previous ") || strings.HasPrefix(head, "Read at") || strings.HasPrefix(head, "Write at")) {
					continue
				}
				fn := "?"
				for _, m := range frameRe.FindAllStringSubmatch(s, -1) {
					if strings.HasPrefix(m[2], repoDir+"/") {
						fn = m[1] + "@" + strings.TrimPrefix(m[2], repoDir+"/") + ":" + m[3]
						break
					}
				}
				fns = append(fns, fn)
			}
			strip := func(s string) string {
				if i := strings.Index(s, "@"); i >= 0 {
					return s[:i]
				}
				return s
			}
			for len(fns) < 2 {
				fns = append(fns, "?")
			}
			p := []string{strip(fns[0]), strip(fns[1])}
			sort.Strings(p)
			out = append(out, raceReport{Pair: p[0] + " || " + p[1], Text: strings.TrimSpace(blk)})
		}
	}
	return out
}

func lastLine(path string) string {
	b, err := ioutil.ReadFile(path)
	if err != nil {
		return ""
	}
	lines := strings.Split(strings.TrimSpace(string(b)), "\n")
	if len(lines) == 0 {
		return ""
	}
	l := lines[len(lines)-1]
	if len(l) > 4000 {
		l = l[:4000] + "…"
	}
	return l
}

func runChild(st Stage, bin, scratch string, batch int, seed int64, tier, replay string) childResult {
	res := childResult{stage: st, batch: batch}
	out := filepath.Join(scratch, fmt.Sprintf("out-%s", st.Name))
	os.MkdirAll(out, 0755)
	var args []string
	if st.OverlayPkg != "" {
		args = []string{"-test.run", st.TestRun, "-test.timeout", "0", "-test.v"}
	}
	cmd := exec.Command(bin, args...)
	cmd.Dir = out
	procs := st.Procs
	if procs == 0 {
		procs = 2
	}
	env := append(os.Environ(),
		"VERIF_OUT="+out, "VERIF_BATCH="+strconv.Itoa(batch), "VERIF_SEED="+strconv.FormatInt(seed, 10),
		"VERIF_TIER="+tier, "VERIF_STAGE="+st.Name, "VERIF_REPLAY="+replay, "VERIF_SELF="+bin,
		"GOMAXPROCS="+strconv.Itoa(procs),
		fmt.Sprintf("GORACE=halt_on_error=0 history_size=3 log_path=%s/race-%s-%d", out, st.Name, batch))
	env = append(env, st.Env...)
	cmd.Env = env
	var stderr bytes.Buffer
	cmd.Stdout = &stderr
	cmd.Stderr = &stderr
	tmo := st.TimeoutS[0]
	if tier == "thorough" {
		tmo = st.TimeoutS[1]
	}
	if tmo == 0 {
		tmo = 600
	}
	if err := cmd.Start(); err != nil {
		res.exit = -1
		res.stderr = err.Error()
		return res
	}
	done := make(chan error, 1)
	go func() { done <- cmd.Wait() }()
	select {
	case err := <-done:
		if err != nil {
			if ee, ok := err.(*exec.ExitError); ok {
				res.exit = ee.ExitCode()
			} else {
				res.exit = -1
			}
		}
	case <-time.After(time.Duration(tmo) * time.Second):
		res.timedOut = true
		cmd.Process.Signal(syscall.SIGQUIT)
		select {
		case <-done:
		case <-time.After(10 * time.Second):
			cmd.Process.Kill()
			<-done
		}
		res.exit = -2
	}
	s := stderr.String()
	if len(s) > 200000 {
		s = s[:60000] + "\n…[cut]…\n" + s[len(s)-100000:]
	}
	res.stderr = s
	if b, err := ioutil.ReadFile(filepath.Join(out, fmt.Sprintf("report-%s-%d.json", st.Name, batch))); err == nil {
		var r childReport
		if json.Unmarshal(b, &r) == nil {
			res.report = &r
		}
	}
	res.journal = lastLine(filepath.Join(out, fmt.Sprintf("journal-%s-%d.jsonl", st.Name, batch)))
	res.races = parseRaces(out, fmt.Sprintf("race-%s-%d", st.Name, batch))
	return res
}

var digitsRe = regexp.MustCompile(`[0-9]+(\.[0-9]+)?`)

var fatalRe = regexp.MustCompile(`(?m)^(fatal error: .*|panic: .*|SIGSEGV.*|unexpected fault address.*)$`)

func crashSignature(stderr string) string {
	m := fatalRe.FindString(stderr)
	if m == "" {
		return ""
	}
	// first /repo/ frame after the message
	idx := strings.Index(stderr, m)
	rest := stderr[idx:]
	fn := ""
	for _, fm := range frameRe.FindAllStringSubmatch(rest, -1) {
		if strings.HasPrefix(fm[2], repoDir+"/") || strings.Contains(fm[2], "/sheens") {
			fn = fm[1]
			break
		}
	}
	if len(m) > 200 {
		m = m[:200]
	}
	return m + " @ " + fn
}

func main() {
	if len(os.Args) >= 2 && os.Args[1] == "--setup" {
		os.Exit(setup())
	}
	if len(os.Args) < 3 {
		fmt.Fprintln(os.Stderr, "usage: vcheck <id> quick|thorough | vcheck <id> --replay <file> | vcheck --setup")
		os.Exit(2)
	}
	id := os.Args[1]
	tier := os.Args[2]
	replay := ""
	if tier == "--replay" {
		if len(os.Args) < 4 {
			fmt.Fprintln(os.Stderr, "missing replay file")
			os.Exit(2)
		}
		replay = os.Args[3]
	} else if t := os.Getenv("VERIF_TIER"); t == "quick" || t == "thorough" {
		_ = t // the command line wins; VERIF_TIER is informational
	}
	prop, ok := properties[id]
	if !ok {
		fmt.Fprintf(os.Stderr, "unknown property %s\n", id)
		os.Exit(2)
	}
	seed := int64(1)
	if s, err := strconv.ParseInt(os.Getenv("VERIF_SEED"), 10, 64); err == nil {
		seed = s
	}
	os.Exit(runProperty(id, prop, tier, seed, replay))
}

func setup() int {
	scratch, _ := ioutil.TempDir("", "verif-setup-")
	defer os.RemoveAll(scratch)
	ids := []string{}
	for id := range properties {
		ids = append(ids, id)
	}
	sort.Strings(ids)
	rc := 0
	for _, id := range ids {
		for _, st := range properties[id].Stages {
			if _, err := build(st, scratch); err != nil {
				fmt.Fprintln(os.Stderr, err)
				rc = 2
			} else {
				fmt.Printf("setup: built %s/%s\n", id, st.Name)
			}
		}
	}
	return rc
}

func runProperty(id string, prop Property, tier string, seed int64, replay string) int {
	start := time.Now()
	scratch, err := ioutil.TempDir("", "verif-"+id+"-")
	if err != nil {
		fmt.Fprintln(os.Stderr, err)
		return 2
	}
	defer os.RemoveAll(scratch)

	var replaySpec struct {
		Stage string `json:"stage"`
		Batch int    `json:"batch"`
		Seed  int64  `json:"seed"`
		Tier  string `json:"tier"`
		Key   string `json:"key"`
	}
	if replay != "" {
		b, err := ioutil.ReadFile(replay)
		if err != nil {
			fmt.Fprintln(os.Stderr, "cannot read replay file:", err)
			return 2
		}
		if err := json.Unmarshal(b, &replaySpec); err != nil {
			fmt.Fprintln(os.Stderr, "bad replay file:", err)
			return 2
		}
		tier = replaySpec.Tier
		seed = replaySpec.Seed
		ap, _ := filepath.Abs(replay)
		replay = ap
	}
	if tier != "quick" && tier != "thorough" {
		fmt.Fprintln(os.Stderr, "tier must be quick or thorough")
		return 2
	}
	ti := 0
	if tier == "thorough" {
		ti = 1
	}

	// build all stages (in parallel)
	bins := make([]string, len(prop.Stages))
	berrs := make([]error, len(prop.Stages))
	var wg sync.WaitGroup
	for i, st := range prop.Stages {
		if replay != "" && st.Name != replaySpec.Stage {
			continue
		}
		wg.Add(1)
		go func(i int, st Stage) {
			defer wg.Done()
			bins[i], berrs[i] = build(st, scratch)
		}(i, st)
	}
	wg.Wait()
	for _, e := range berrs {
		if e != nil {
			fmt.Fprintln(os.Stderr, e)
			fmt.Printf("BROKEN property=%s build failed\n", id)
			return 2
		}
	}

	// run children
	type job struct {
		si, batch int
	}
	var jobs []job
	for i, st := range prop.Stages {
		if replay != "" {
			if st.Name == replaySpec.Stage {
				jobs = append(jobs, job{i, replaySpec.Batch})
			}
			continue
		}
		for b := 0; b < st.Batches[ti]; b++ {
			jobs = append(jobs, job{i, b})
		}
	}
	results := make([]childResult, len(jobs))
	// weighted semaphore over the 16 cores (all slots of a job are taken in one step)
	var semMu sync.Mutex
	semCond := sync.NewCond(&semMu)
	avail := 16
	for ji, j := range jobs {
		wg.Add(1)
		go func(ji int, j job) {
			defer wg.Done()
			st := prop.Stages[j.si]
			w := st.Procs
			if w == 0 {
				w = 2
			}
			if w > 16 {
				w = 16
			}
			semMu.Lock()
			for avail < w {
				semCond.Wait()
			}
			avail -= w
			semMu.Unlock()
			results[ji] = runChild(st, bins[j.si], scratch, j.batch, seed, tier, replay)
			semMu.Lock()
			avail += w
			semMu.Unlock()
			semCond.Broadcast()
		}(ji, j)
	}
	wg.Wait()

	// aggregate
	findings := readFindings()
	openKeys := map[string]finding{}
	for _, f := range findings {
		if f.open && f.property == id {
			openKeys[f.key] = f
		}
	}
	evaluations := 0
	nt := map[string]struct{}{}
	var samples []interface{}
	counters := map[string]int{}
	notes := map[string]interface{}{}
	incon := 0
	var viols []violation
	broken := []string{}
	raceTotal := 0
	racePairs := map[string]int{}
	perStage := map[string]map[string]int{}
	for _, r := range results {
		stn := r.stage.Name
		if perStage[stn] == nil {
			perStage[stn] = map[string]int{}
		}
		if r.report != nil {
			evaluations += r.report.Evaluations
			perStage[stn]["evaluations"] += r.report.Evaluations
			perStage[stn]["children"]++
			for _, h := range r.report.NonTrivial {
				nt[stn+":"+h] = struct{}{}
			}
			for k, v := range r.report.Counters {
				counters[k] += v
			}
			for k, v := range r.report.Notes {
				notes[stn+"."+k] = v
			}
			incon += r.report.Incon
			if len(samples) < 6 {
				for _, s := range r.report.Samples {
					if len(samples) < 6 {
						samples = append(samples, s)
					}
				}
			}
			for _, v := range r.report.Violations {
				v.stage, v.batch = stn, r.batch
				viols = append(viols, v)
			}
		}
		// races
		seen := map[string]bool{}
		for _, rr := range r.races {
			raceTotal++
			racePairs[rr.Pair]++
			if seen[rr.Pair] {
				continue
			}
			seen[rr.Pair] = true
			key := "race"
			for _, ck := range r.stage.RaceKeys {
				if regexp.MustCompile(ck.Re).MatchString(rr.Pair) {
					key = ck.Key
				}
			}
			txt := rr.Text
			if len(txt) > 6000 {
				txt = txt[:6000]
			}
			viols = append(viols, violation{Key: key, What: "data race reported by the Go race detector: " + rr.Pair,
				Witness: map[string]interface{}{"pair": rr.Pair, "report": txt, "last_journal": r.journal}, stage: stn, batch: r.batch})
		}
		done := r.report != nil && r.report.Done
		if !done {
			sig := crashSignature(r.stderr)
			tail := r.stderr
			if len(tail) > 6000 {
				tail = tail[len(tail)-6000:]
			}
			head := r.stderr
			if i := strings.Index(head, sig[:min(len(sig), 20)]); sig != "" && i >= 0 {
				head = head[i:]
			}
			if len(head) > 6000 {
				head = head[:6000]
			}
			switch {
			case sig != "":
				key := ""
				for _, ck := range r.stage.CrashKeys {
					if regexp.MustCompile(ck.Re).MatchString(r.stderr) {
						key = ck.Key
						break
					}
				}
				viols = append(viols, violation{Key: key, What: "child process died: " + sig,
					Witness: map[string]interface{}{"signature": sig, "last_journal": r.journal, "stderr": head}, stage: stn, batch: r.batch})
				counters["children_crashed"]++
			case r.timedOut:
				if r.stage.HangIsViolation {
					viols = append(viols, violation{Key: "", What: "child did not finish before the driver's watchdog (hang)",
						Witness: map[string]interface{}{"last_journal": r.journal, "stderr_tail": tail}, stage: stn, batch: r.batch})
				} else {
					incon++
					broken = append(broken, fmt.Sprintf("stage %s batch %d timed out (inconclusive); last journal: %s", stn, r.batch, r.journal))
				}
				counters["children_timed_out"]++
			default:
				broken = append(broken, fmt.Sprintf("stage %s batch %d ended without a report (exit %d): %s", stn, r.batch, r.exit, tail))
			}
		}
	}

	// classify
	os.MkdirAll(filepath.Join(outDir, "replays"), 0755)
	if replay == "" {
		if old, _ := filepath.Glob(filepath.Join(outDir, "replays", id+"-*.json")); old != nil {
			for _, f := range old {
				os.Remove(f)
			}
		}
	}
	knownSeen := map[string]int{}
	knownWhat := map[string]string{}
	nViol := 0
	var violLines []string
	groupN := map[string]int{}
	groupOrder := []string{}
	for i, v := range viols {
		if f, ok := openKeys[v.Key]; ok && v.Key != "" {
			knownSeen[v.Key]++
			if knownWhat[v.Key] == "" {
				knownWhat[v.Key] = f.text
			}
			continue
		}
		nViol++
		g := digitsRe.ReplaceAllString(v.What, "#")
		if len(g) > 70 {
			g = g[:70]
		}
		g = fmt.Sprintf("key=%q %s", v.Key, g)
		if groupN[g] == 0 {
			groupOrder = append(groupOrder, g)
		}
		groupN[g]++
		if groupN[g] > 3 || len(violLines) >= 40 {
			continue
		}
		wf := map[string]interface{}{"property": id, "stage": v.stage, "batch": v.batch, "seed": seed, "tier": tier,
			"key": v.Key, "what": v.What, "witness": v.Witness}
		b, _ := json.MarshalIndent(wf, "", " ")
		p := filepath.Join(outDir, "replays", fmt.Sprintf("%s-%s-s%d-b%d-%d.json", id, v.stage, seed, v.batch, i))
		ioutil.WriteFile(p, b, 0644)
		violLines = append(violLines, fmt.Sprintf("VIOLATION property=%s replay=%s", id, p))
		if groupN[g] == 1 {
			fmt.Printf("  violation [%s/%d] key=%q: %s\n", v.stage, v.batch, v.Key, v.What)
		}
	}
	for _, g := range groupOrder {
		if groupN[g] > 1 {
			fmt.Printf("  (%d violations of the kind: %s)\n", groupN[g], g)
		}
	}
	keys := []string{}
	for k := range knownSeen {
		keys = append(keys, k)
	}
	sort.Strings(keys)
	for _, k := range keys {
		n := counters["violations:"+k]
		if n < knownSeen[k] {
			n = knownSeen[k]
		}
		fmt.Printf("KNOWN-FINDING: property=%s key=%s %s (reproduced %d×)\n", id, k, knownWhat[k], n)
	}
	for k, f := range openKeys {
		if knownSeen[k] == 0 && replay == "" {
			fmt.Printf("note: open finding %s (%s) was not reproduced in this run\n", k, f.text)
		}
	}
	for _, l := range violLines {
		fmt.Println(l)
	}
	for _, b := range broken {
		fmt.Println("note:", b)
	}

	floor := prop.Floor[ti]
	wall := time.Since(start).Seconds()
	if replay != "" {
		fmt.Printf("replay of %s: stage %s batch %d re-executed; %d violation(s) outside known findings\n", replay, replaySpec.Stage, replaySpec.Batch, nViol)
		if nViol > 0 {
			return 1
		}
		return 0
	}

	// evidence
	cov := map[string]interface{}{
		"evaluations":         evaluations,
		"distinct_nontrivial": len(nt),
		"rule":                prop.Rule,
		"samples":             samples,
		"inconclusive":        incon,
		"counters":            counters,
		"per_stage":           perStage,
		"race_reports_total":  raceTotal,
		"race_reports_pairs":  racePairs,
		"known_findings_seen": knownSeen,
		"notes":               notes,
		"children":            len(results),
		"nontrivial_floor":    floor,
	}
	if len(samples) == 0 {
		cov["samples"] = []interface{}{"(no sample recorded)"}
	}
	ev := map[string]interface{}{
		"property_id": id, "tier": tier, "seed": seed, "level": prop.Level,
		"coverage": cov, "assumptions": prop.Assumptions, "wall_s": wall, "violations": nViol,
	}
	os.MkdirAll(filepath.Join(outDir, "evidence"), 0755)
	eb, _ := json.MarshalIndent(ev, "", " ")
	ioutil.WriteFile(filepath.Join(outDir, "evidence", id+".json"), eb, 0644)

	fmt.Printf("%s %s seed=%d: %d evaluations, %d distinct non-trivial (floor %d), %d inconclusive, %d race reports, %d known-finding kinds, %d violations, %.0fs\n",
		id, tier, seed, evaluations, len(nt), floor, incon, raceTotal, len(knownSeen), nViol, wall)
	if nViol > 0 {
		return 1
	}
	if len(broken) > 0 {
		fmt.Printf("BROKEN property=%s %d child(ren) gave no verdict\n", id, len(broken))
		return 2
	}
	if len(nt) < floor {
		fmt.Printf("BROKEN property=%s only %d distinct non-trivial cases, floor is %d\n", id, len(nt), floor)
		return 2
	}
	return 0
}

func min(a, b int) int {
	if a < b {
		return a
	}
	return b
}
