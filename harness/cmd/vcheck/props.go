package main

// Stage is one kind of child process of a property's check.
type Stage struct {
	Name string
	// Pkg is a main package of the harness module (built with go build) …
	Pkg string
	// … or OverlayPkg is a package directory of /repo (relative) into which the
	// OverlayFiles (target file name -> file under harness/overlay/) are injected
	// as in-package tests with `go test -c -overlay`; TestRun selects the test.
	OverlayPkg   string
	OverlayFiles map[string]string
	TestRun      string

	Race       bool // build with the race detector
	NoCheckptr bool // -d=checkptr=0 (only for builds that link boltdb, DESIGN §4.7)
	Procs      int  // GOMAXPROCS of the child; also its weight in the 16-core budget
	Batches    [2]int
	TimeoutS   [2]int
	Env        []string

	HangIsViolation bool
	CrashKeys       []ReKey // stderr regex -> classifier key
	RaceKeys        []ReKey // race function-pair regex -> classifier key
}

type ReKey struct{ Re, Key string }

type Property struct {
	Level       string
	Rule        string
	Floor       [2]int
	Assumptions []string
	Stages      []Stage
}

var properties = map[string]Property{}

func init() {
	properties["C05"] = Property{
		Level: "exploration",
		Rule:  "one case = (pattern, data, initial bindings, Go-typing mode); patterns are derived from the data (drop keys/elements, substitute variables with repeats, perturb constants), data derived from patterns, or independent; non-trivial = the reference matcher yields >=1 binding and the pattern has a variable or nested structure; distinct by canonical JSON of the case; also through /api/sys/util/match and Env.match for every 7th plain case; look-alike scalars; dynamic type and object identity of the initial bindings before/after (with an extra Go-typed binding the pattern never mentions); one pattern map object refilled and matched again (`judgeReuse`)",
		Floor: [2]int{2000, 20000},
		Assumptions: []string{"the 60-line reference matcher lib/ref.Match is the specification of partial matching (maps may have extra keys, arrays are sets, repeated variables need deep-equal values)",
			"inputs stay inside the documented fragment (arrays of distinct scalars with at most one variable, or arrays of maps; data holds no variable-looking strings - those belong to C13)"},
		Stages: []Stage{{Name: "match", Pkg: "./mon/c05", Procs: 1, Batches: [2]int{8, 16}, TimeoutS: [2]int{300, 1500}}},
	}
}

func init() {
	properties["C01"] = Property{
		Level: "exploration",
		Rule:  "one case = (history prefix, event, state kind[, parent]) dispatched through FindRules.Do and compared with the model; histories of 8-30 AddRule/replace/RemRule/AddFact-on-rule-id/RemFact/EnableRule/Clear steps over 4 ids (+2 in a parent); events derived from current and former `when` patterns; non-trivial = the model expects >=1 rule dispatched or the event matches a former pattern; distinct by canonical JSON of (state, history prefix, event); every fifth judged event with expected dispatch also runs through ProcessEvent and is submitted once more by a script (Env.ProcessEvent): same rules, same number of action values; 1 rule in 8 gives its pattern directly as the `when` value, 1 in 10 has a property variable as its only key",
		Floor: [2]int{500, 5000},
		Assumptions: []string{"lib/ref.Match + lib/ref.Loc are the specification; rules use the documented {\"when\":{\"pattern\":P}} form; an operation that returns an error leaves its id 'unknown' until rewritten"},
		Stages: []Stage{{Name: "dispatch", Pkg: "./mon/c01", Procs: 1, Batches: [2]int{8, 16}, TimeoutS: [2]int{600, 3000}}},
	}
}

func init() {
	properties["C02"] = Property{
		Level: "exploration",
		Rule:  "one case = one operation of a generated history (AddFact/RemFact/GetFact/SearchFacts over 5 ids, omitted ids and property facts; facts with numbers, booleans, over-long strings, keys ending in '!', a `rule` key) judged on both state implementations against the model; search patterns are derived from stored and formerly stored facts; non-trivial = the expected search result is non-empty, or the id was written before; distinct by canonical JSON of the history prefix; plus (batch 0) ids generated for concurrent id-less adds on 8 locations must be distinct; scalars include look-alikes across JSON types (\"1\"/1, \"true\"/true); one add in five is written by a script (Env.AddFact) and one search in five is repeated by a script (Env.Search): same ids found",
		Floor: [2]int{500, 5000},
		Assumptions: []string{"lib/ref.Match + lib/ref.Loc are the specification; facts hold no variable-looking strings (C13) and no ttl/expires (C07)"},
		Stages: []Stage{{Name: "search", Pkg: "./mon/c02", Procs: 1, Batches: [2]int{8, 16}, TimeoutS: [2]int{600, 3000}}},
	}
}

func init() {
	properties["C08"] = Property{
		Level: "exploration",
		Rule:  "one case = (dependency graph, deletion prefix, state kind) observed after the deletion: GetFact of every id ever used, StateSize, ListRules and the MemStorage contents compared with the model closure; graphs over <=7 ids (chains, fans, cycles, self-loops, dangling targets, rules, `disabled` property facts, variable-looking ids); deletion by RemFact, RemRule, of absent ids, and by expiry (ttl 1 s observed after 2.2 s); non-trivial = the deletion removed >=2 ids in the model; distinct by canonical JSON of (state, operation list); reload steps between building and deleting, before the expiry instant and after it (item expiring while unloaded); a quarter of the facts are written by a script (Env.AddFact); one node in five gets a property written in fact form ({\"id\":target,\"!note\":..}, with or without its own deleteWith)",
		Floor: [2]int{200, 2000},
		Assumptions: []string{"lib/ref.Loc.Rem (worklist closure; Rem of an absent id still cascades, as both implementations and the manual do) is the specification", "per-call watchdog of 20 s decides 'terminates'"},
		Stages: []Stage{{Name: "cascade", Pkg: "./mon/c08", Procs: 1, Batches: [2]int{8, 16}, TimeoutS: [2]int{600, 3000}}},
	}
}

func init() {
	properties["C10"] = Property{
		Level: "exploration",
		Rule:  "one case = (lifecycle walk prefix, location, rule id) observed by a full ProcessEvent whose action values name the rule version that ran, plus RuleEnabled and ListRules; walks of 10-25 steps over add/overwrite/RemRule/RemFact/overwrite-by-fact/disable/enable/reload/location off+on on 2 ids, every third walk with the rules in a parent and flags in the child; non-trivial = the step changed which versions must fire somewhere; distinct by canonical JSON of (state, walk prefix, location, id); the disabled-location probes include evaluate! and trigger! events; `faultyRemoval`: RemRule of a disabled rule with its k-th storage call failing (k=1..4), then events live and after reload",
		Floor: [2]int{200, 2000},
		Assumptions: []string{"the model: the disabled flag belongs to the id (can be set before the rule exists), is cleared by removal of the id, survives reload; duplicate ids across child and parent are the documented error"},
		Stages: []Stage{{Name: "lifecycle", Pkg: "./mon/c10", Procs: 2, Batches: [2]int{8, 16}, TimeoutS: [2]int{900, 3600}}},
	}
}

func init() {
	properties["C03"] = Property{
		Level: "exploration",
		Rule:  "one case = (fact set of 0-8 small facts, own and inherited; query tree of depth <=4 with arity 0..3, empty and/or, not under and/or, shortCircuit on/off, shared and fresh variables, code leaves from a family with known value) evaluated by Location.Query and, for half of them, as a rule condition inside ProcessEvent; compared as multisets of bindings; non-trivial = depth >=2 with a non-empty result, or not/or nested under another operator; distinct by canonical JSON of (state, facts, query); parents re-use the child's fact ids in half of the sets with a parent; look-alike scalars; 1 pattern leaf in 10 has a property variable (as its only key), bound or not by other conjuncts; directed key-position cases",
		Floor: [2]int{200, 2000},
		Assumptions: []string{"lib/ref.Eval (written from the property statement) + lib/ref.Match are the specification", "code leaves come from a fixed family whose value is known (arbitrary JavaScript is out of reach)"},
		Stages: []Stage{{Name: "query", Pkg: "./mon/c03", Procs: 2, Batches: [2]int{8, 16}, TimeoutS: [2]int{900, 3600}}},
	}
}

func init() {
	properties["C04"] = Property{
		Level: "exploration",
		Rule:  "one case = one processed event in a generated world (0-4 rules with 1-3 actions each, `when` patterns with an array variable giving several bindings, conditions giving 0-3 bindings, serial and concurrent policy, failing action variants, both states); three records of the executions (Env.out side channel, tree nodes, values) are compared with the expected multiset; non-trivial = >=2 executions expected; distinct by canonical JSON of (state, rules, facts, event); run under the Go race detector; every ok-action marks its `event` and reports whether it found it unmarked (private copies), the event in the tree is compared with the submitted one; `triggered`: ordinary / trigger! / evaluate! / one-shot runs of rules whose body carries an id of its own; `reservedVars`: `when` variables named ?location / ?ruleId / ?event; a failing action stops the walk only in a serial rule (worlds mix serial rules with failing actions of other rules); names of the triggered scenario vary per round",
		Floor: [2]int{100, 1000},
		Assumptions: []string{"expected multiset computed with lib/ref.Match and lib/ref.Eval", "action scripts come from a template that returns its visible environment"},
		Stages: []Stage{{Name: "actions", Pkg: "./mon/c04", Race: true, Procs: 4, Batches: [2]int{4, 12}, TimeoutS: [2]int{900, 3600}}},
	}
}

func init() {
	properties["C19"] = Property{
		Level: "exploration",
		Rule:  "one case = (operation, protection state, caller, state kind, generated initial content): 26 operations (direct, from RunJavascript, from a rule action, the removal of a one-shot scheduled rule at the end of its triggered run) x {none, writeKey, readKey, both, readOnly, disabled} x {no key, wrong key, right key} x {indexed, linear}; refused => error and identical raw storage and live items; allowed => same result and resulting state as an unprotected twin; second matrix: 8 inherited reads (search, list and search rules, query, JS search/query, event dispatch, a child rule whose condition reads the parent) issued at an unprotected child whose PARENT is {unprotected, read key, both keys, write key, disabled} x callers x states: without the parent's read key nothing of the parent is revealed, an error is reported and both storages are unchanged; non-trivial = protection state != none; distinct by (state, protection, caller, op, content seed); protection is set in three ways by round (SetProp, property fact without id, property fact under a caller-chosen id); protections readOnly+writeKey and readOnly+both; the same matrix through sys.System (19 operations incl. SetParents with empty and nil lists, ClearLocation, DeleteLocation, CreateLocation of a location used without being created)",
		Floor: [2]int{200, 2000},
		Assumptions: []string{"the matrix of DESIGN §5 C19: write operations need the write key / are refused when read-only; operations that reveal facts or rules need the read key; a disabled location refuses everything; RuleEnabled/GetParents/SetProp/StateSize-when-disabled are outside the matrix"},
		Stages: []Stage{{Name: "matrix", Pkg: "./mon/c19", Procs: 2, Batches: [2]int{4, 8}, TimeoutS: [2]int{900, 3600}}},
	}
}

func init() {
	properties["C14"] = Property{
		Level: "exploration",
		Rule:  "one case = (script from 5 families, timeout setting {location control 50-300 ms, system default 400 ms, timeouts disabled}, position {RunJavascript, rule condition, rule action}, state kind); non-terminating => error/non-complete node, return not before the limit and (canary-judged) within 12 s of it; throwing/invalid => error, never success; finishing => expected value with exactly its bindings visible; non-trivial = script is throwing, invalid or non-terminating, or a timeout is configured; distinct by the case tuple; `siblingScopes` (or/and/not over scripts that return objects; an action reports whether it sees a sibling's variable) and `libraryScripts` (the same text with library twice / none / thrice / broken in three orders as action, condition and RunJavascript); getter-valued results (finishing and looping), thrown objects with a throwing toString, `encodedScripts` (opts.encoding none / empty / base64), `oversleep` (Env.sleep beyond the limit: listed finding); unbounded recursion (must end as an error of the script); stage `spin`: loops without a statement in their body, in a child of their own (listed finding c14.empty-loop-not-interrupted)",
		Floor: [2]int{30, 100},
		Assumptions: []string{"bounded progress is judged against a canary timer in the same Go runtime: only when the canary fired on time and the call is still blocked 12 s later is it a violation; a late canary makes the case inconclusive", "scripts blocked inside a host function (Env.sleep(1e12)) are out of reach: otto can only be interrupted between statements"},
		Stages: []Stage{
			{Name: "timeouts-on", Pkg: "./mon/c14", Procs: 2, Batches: [2]int{2, 4}, TimeoutS: [2]int{900, 3600}},
			{Name: "timeouts-off", Pkg: "./mon/c14", Procs: 2, Batches: [2]int{1, 2}, TimeoutS: [2]int{900, 3600}, Env: []string{"C14_TIMEOUTS=off"}},
			{Name: "spin", Pkg: "./mon/c14", Procs: 8, Batches: [2]int{1, 1}, TimeoutS: [2]int{300, 600}, Env: []string{"C14_SPIN=1"}},
		},
	}
}

func init() {
	c13 := func(name string, b [2]int) Stage {
		return Stage{Name: name, Pkg: "./mon/c13", Procs: 2, Batches: b, TimeoutS: [2]int{900, 3600}, HangIsViolation: true,
			CrashKeys: []ReKey{{`(?s)stack overflow.*sheens`, "c13.sheens-recursion"}, {`(?s)goroutine stack exceeds.*sheens`, "c13.sheens-recursion"}}}
	}
	properties["C13"] = Property{
		Level: "exploration",
		Rule:  "one case = one hostile document (grammar: wrong types under reserved keys, variable-looking strings as data/keys/ids, empty and up-to-64-deep containers, heterogeneous arrays, raw non-JSON bodies) through one entry point (AddFact, AddRule, RemFact, GetFact, SearchFacts, SearchRules, Query, ProcessEvent, ListRules) of core.Location, sys.System or the HTTP service (httptest), both states, each followed by canary traffic (AddFact/GetFact/ProcessEvent of a fixed rule) on the same location; oracle: returns within 25 s, no panic, HTTP answers, canary still works; non-trivial = the document touches a reserved key, has a variable-looking string or depth >= 8; distinct by canonical JSON of the call; (batch 0) `storedVarStrings`: facts holding variable-looking strings stay stored while queries, rule conditions and searches using the same variable names run; `hostileScripts`: 50 scripts calling the Env functions with absent / ill-typed / malformed arguments, throwing hostile objects, returning or storing values JSON cannot render (NaN, Inf), as action and as condition, each followed by a canary (write, read, search, event); `ruleLikeFacts`: 9 rule-like items (facts carrying malformed rule bodies, `when` patterns the matcher refuses) next to an ordinary rule with the same `when`, which must still run; `refusedReplacement` also on a System that reloads the location per request; raw bodies include empty JSON-typed parameters; unusual variable names ('?who(', '?a[', …) in rules with endpoint actions and script actions",
		Floor: [2]int{1000, 10000},
		Assumptions: []string{"per-call watchdog 25 s for operations that take milliseconds", "the strict canary (canary rule fired) is applied only while no hostile item with a `rule` key is stored, otherwise the canary only has to return without panic", "the process-fatal sheens recursion (same repeated variable string in pattern and datum) is confined to a dedicated child; pattern-position documents get fresh, non-repeated variable names"},
		Stages: []Stage{c13("loc", [2]int{4, 8}), c13("sys", [2]int{2, 4}), c13("http", [2]int{2, 4}), c13("sheens", [2]int{1, 1})},
	}
}

func init() {
	properties["C12"] = Property{
		Level: "exploration",
		Rule:  "one case = one recorded history: 2-6 clients x 4-8 operations on 3 shared ids of one location (families: facts; rules+events; rules+enable+events; facts and rules on the same ids), unique written values, seeded delays at the verifhook points in two thirds of the histories, final reads of every id from the live and from a reloaded location; checked by porcupine against the sequential model (60 s timeout => inconclusive) and run under the race detector; non-trivial = >=2 clients overlapped in time and >=1 read observed a value written by another client; distinct by (seed, history index); plus `clearVsWrites` (4 writers and a clearer on a storage whose Clear is slow: live = reloaded, writes ordered against the last Clear) and `searchVsAdds` (ids with a past that left dangling term entries, 3 searchers and 3 adders, then a search must find every acknowledged fact, live and reloaded); every other block of 8 histories runs on a state with cron.AddHooks; `expiringItems`: rules with an expiry dispatched and fetched, expired facts searched and fetched by 6 clients at once; `renderedEvents`: 6 clients sending events to one location through the HTTP service (each answer rendered as JSON while the others are); (batch 1) `remRuleDuels`: RemRule(r) against AddRule(r) + EnableRule(r,false), 3000 rounds per state; `expiringItems` duels: two gets and one add released together for each of 300 expired ids",
		Floor: [2]int{50, 500},
		Assumptions: []string{"the sequential model in mon/c12 (a map id -> fact/rule plus disabled flags) is the specification", "a strict-model failure that the relaxed model pe-two-instant accepts is attributed to the open finding c12.pe-two-instant", "schedules are sampled (stress + injected delays), not enumerated"},
		Stages: []Stage{{Name: "histories", Pkg: "./mon/c12", Race: true, Procs: 8, Batches: [2]int{4, 8}, TimeoutS: [2]int{1200, 3600}, HangIsViolation: true}},
	}
}

func init() {
	properties["C11"] = Property{
		Level: "exploration",
		Rule:  "one case = one client (location) of one concurrent round: 8-16 clients released on a barrier against a fresh engine, each issuing 12-21 generated requests (facts, rules, events, searches, queries, removes) to its own location, starting with the engine's first requests; half of the rounds through the HTTP service (httptest); seeded delays at sys.storage.gap / sys.open.gap in two thirds of the rounds; compared request by request and by final state with the same sequences run alone on another fresh engine; run under the race detector; non-trivial = at least two clients overlapped in time; distinct by (seed, round, client); every other round configures CodeProps, half of the rule actions write through Env.AddFact and report Env.Location; every fifth round runs with timers on and MaxTimers 5; plus (batch 0) `pendingLimit`: the service behind its own Listener with SetMaxPending(2), six clients on six locations with fresh connections and slow events: refusals are errors for their client only, the process lives, every location ends with exactly the acknowledged facts (inconclusive when no refusal was observed)",
		Floor: [2]int{20, 200},
		Assumptions: []string{"schedules are sampled (barrier start + injected delays), not enumerated", "engines are created sequentially by the harness (NewSystem writes a process-wide parameter; DESIGN §6.6)"},
		Stages: []Stage{{Name: "locations", Pkg: "./mon/c11", Race: true, Procs: 8, Batches: [2]int{3, 8}, TimeoutS: [2]int{1200, 3600}, HangIsViolation: true},
			{Name: "bolt", Pkg: "./mon/c11", Procs: 8, Batches: [2]int{1, 2}, TimeoutS: [2]int{600, 1200}, HangIsViolation: true}},
	}
}

func init() {
	properties["C20"] = Property{
		Level: "exploration",
		Rule:  "cases: (a) one add/remove history of 8-23 steps around MaxFacts in 1..6 on ids max+2 wide (facts, rules, overwrites at the boundary), both states, plus rounds of 8-15 concurrent adders (facts only / rules only / mixed; every other round starts one below the maximum); (b) one breaker run: limit 1-20, interval 40-400 ms, 1-16 concurrent callers, arrival patterns burst+slow poll / burst+fast poll (faster than interval/20) / steady / random over 3 intervals, every Zap logged with [before, after] and checked offline for the sliding-window bound and for recovery; (c) one throttle run: 8-63 submitters, pending limit 1-4, Pending() sampled and, independently, the submissions seen waiting at one instant counted by a probe around the throttle's breaker (a submission is certainly waiting between its first and its last attempt); non-trivial = the limit was reached (an add refused / a poll refused / a submission overflowed); distinct by the run's parameters and history; breaker runs also through core.HTTPRequest.Do against a local endpoint with the breaker registered by host or URL (admitted = reached the endpoint, refused = 430); a quarter of the throttle runs disable the breaker, another quarter the throttle (no pending bound judged there); property-shaped adds (`addProp`) in the capacity histories; the breaker behind the throttle is the outbound breaker, a load-probe SimpleBreaker that is over its limit for the first milliseconds, or the ComboBreaker of both; plus (batch 0) `groupCapacity`: a System whose maximum is configured per group of locations (LocToGroup, GroupControls)",
		Floor: [2]int{30, 300},
		Assumptions: []string{"breaker verdicts use only interval arithmetic on monotonic [before, after] stamps: a rate violation needs limit+1 admissions with max(after)-min(before) < interval; a recovery violation needs a refused poll whose `before` is later than every earlier admission's `after` + interval + 2 ticks", "a starved period in which every gap between consecutive polls is shorter than interval/20 is the open finding c20.breaker-slide-drops-remainder"},
		Stages: []Stage{
			{Name: "capacity", Pkg: "./mon/c20", Race: true, Procs: 4, Batches: [2]int{2, 4}, TimeoutS: [2]int{900, 3600}},
			{Name: "breaker", Pkg: "./mon/c20", Race: true, Procs: 4, Batches: [2]int{4, 8}, TimeoutS: [2]int{900, 3600}},
			{Name: "throttle", Pkg: "./mon/c20", Race: true, Procs: 4, Batches: [2]int{2, 4}, TimeoutS: [2]int{900, 3600}},
		},
	}
}

func init() {
	properties["C06"] = Property{
		Level: "fault_enumeration",
		Rule:  "generated histories of 10-23 operations (AddFact with ttl / expires / deleteWith, AddRule, RemFact, RemRule, EnableRule, SetParents, Clear, Delete) for state in {indexed, linear} x storage in {memory, bolt}; per history ALL of: a reload point after every prefix (live vs rebuilt location: per-id values, expiry, probe searches, dispatch, rules, parents, size; stored form of expiring items), a crash point after EVERY storage write (memory: deep snapshot; bolt: a sub-process SIGKILLed right after the write, file reopened; quick samples 4-5 bolt points per history, thorough all) judged per id (old or new value), and a fault point for EVERY storage call (the issuing operation must return an error); plus an aliasing canary for data handed out by Load (bolt: own sub-process); one case = one (history, point); non-trivial = the interrupted / last operation changed >=1 id (fault points: always); distinct by canonical JSON of (state, history, point); histories include replacements that indexed state refuses (unindexable `when`) over existing ids; at every fault point on memory storage the live location is compared with a reloaded one BEFORE the retry (a failed operation is applied to both or to neither)",
		Floor: [2]int{500, 5000},
		Assumptions: []string{"torn writes inside one bolt transaction are bolt's guarantee (trusted)", "Cassandra / DynamoDB back ends are out of reach offline", "the live location's own per-id values before and after an operation are the reference for crash points (their agreement with a reload is established by the reload points)"},
		Stages: []Stage{
			{Name: "mem", Pkg: "./mon/c06", Procs: 1, Batches: [2]int{8, 16}, TimeoutS: [2]int{900, 3600}},
			{Name: "bolt", Pkg: "./mon/c06", Procs: 2, Batches: [2]int{3, 8}, TimeoutS: [2]int{900, 3600}},
		},
	}
}

func init() {
	properties["C07"] = Property{
		Level: "exploration",
		Rule:  "one case = one timed scenario: item kind {fact, rule} x expiry encoding {expires numeric, expires RFC3339, ttl number, ttl duration, none} x state x observation schedule (reads by get/search/dispatch/list, reloads before and after the expiry instant, reload late enough to expose a restarted ttl, reads dense around the boundary second), expiry 3-4 s ahead, 60 scenarios in parallel on separate locations; plus already-expired writes; every observation carries [before, after] in UNIX seconds; non-trivial = at least one observation certainly before and one certainly after the expiry instant; distinct by the scenario tuple; one schedule per item uses a single observation kind (dispatch only for rules) so that nothing else touches the item between write and expiry; never-expiring bystanders next to every timed item (must be complete at the end, live and stored); encodings also RFC3339 with +03:00 / -05:00 offsets, int64 ttl, ttl written by a script",
		Floor: [2]int{24, 60},
		Assumptions: []string{"the code's clock is whole seconds: an observation straddling the expiry second is accepted either way", "a rule with an RFC3339 expires is refused by AddRule (Rule.expires is a number); a refused write is recorded, not judged"},
		Stages: []Stage{{Name: "timed", Pkg: "./mon/c07", Procs: 4, Batches: [2]int{1, 2}, TimeoutS: [2]int{300, 900}}},
	}
}

func init() {
	properties["C09"] = Property{
		Level: "exploration",
		Rule:  "one case = one step of a history over a forest of 3-6 locations (through a SimpleLocationProvider of core.Locations and through sys.System, both states): facts, rules, removals, EnableRule flags for inherited rules and SetParents (chains, fans, two parents, diamonds); after the step the own view (get, non-inherited search) and the inherited view (inherited search as a multiset, inherited rule list, dispatch of 2 probe events) of EVERY location are compared with the model; plus 16 loop cases (self, length 2, length 3, loop not through the start) in their own child; non-trivial = the forest has >=1 parent edge; distinct by canonical JSON of (entry point, state, history prefix); every third history uses the same fact ids in all locations; events carrying an embedded rule are sent with a Context the client used for another location before; structured `box` values and embedded rules whose action writes into its bound values; `ancestorFault`: a provider that cannot open one ancestor (inherited operations must fail; a script that swallows the failure still writes to its own location); `failedWalk`: an inherited search failing at an ancestor, swallowed by a condition or a serial action, then Env.AddFact / Env.RemFact / Env.Location",
		Floor: [2]int{200, 2000},
		Assumptions: []string{"lib/ref.Loc + lib/ref.Match per location; expected inherited result = union over the transitive parents, each fact once", "rule ids are unique across locations (the same id in child and parent is the documented duplicate-id error, exercised in C10)"},
		Stages: []Stage{
			{Name: "forest", Pkg: "./mon/c09", Procs: 2, Batches: [2]int{6, 12}, TimeoutS: [2]int{900, 3600}},
			{Name: "loops", Pkg: "./mon/c09", Procs: 2, Batches: [2]int{1, 1}, TimeoutS: [2]int{300, 600}, HangIsViolation: true},
		},
	}
}

func init() {
	properties["C15"] = Property{
		Level: "exploration",
		Rule:  "one case = one step of a history over 3 locations sharing 2 rule ids: add scheduled rule (one-shot +d, !time, recurring), overwrite by ordinary rule / by plain fact, RemRule, RemFact, cascade delete through deleteWith, Clear, reload of all locations; persistent and ephemeral recording Cronner; both states; after the step registrations are compared with the model's live scheduled rules per location and a tick is delivered for every current or former registration; plus timed scenarios (expiry of a scheduled rule; the real built-in cron through sys.System with +1s rules of one id in two locations, canary-judged); non-trivial = the set of live scheduled rules changed or a tick was delivered; distinct by canonical JSON of (state, cron kind, history prefix); every third scheduled-rule version has a condition without solution; `eventText` (the text registered with the cron service for rule ids with quotes, backslash-u, injected JSON); `noOccurrence` (replacement by and restart with a rule whose schedule never occurs, built-in cron on bolt); `croltGlue` (System with cron.CroltSimple against a stand-in for the persistent cron service: after each of 13 steps its job table equals the scheduled rules that exist; ids and locations with &, =, #, blanks); `reloadedInstance` (built-in cron, second instance of the location, same-schedule replacement); (batch 0) `remVsAdd`: RemRule against AddRule of a scheduled rule, 3000 rounds per state: existence = registration",
		Floor: [2]int{150, 1500},
		Assumptions: []string{"the recording Cronner keys jobs by (location, id), i.e. it reports what the engine asked for", "stale registrations are attributed to open findings by the kind of step that should have removed them"},
		Stages: []Stage{
			{Name: "hooks", Pkg: "./mon/c15", Procs: 2, Batches: [2]int{4, 8}, TimeoutS: [2]int{900, 3600}},
			{Name: "timed", Pkg: "./mon/c15", Procs: 2, Batches: [2]int{1, 1}, TimeoutS: [2]int{300, 600}},
		},
	}
}

func init() {
	properties["C16"] = Property{
		Level: "exploration",
		Rule:  "one case = one job life (add -> fire / remove / replace) in a recorded run; in-memory cron: 13 runs per round in parallel (directed patterns: remove the head and stay quiet, replace the head by a later time, add earlier than the head, add during suspension, pause, remove a recurring job during its run, replace a recurring job (or remove and re-add it) so that old and new callback run at the same time and the old one returns first, recurring + one-shot; and random mixes over 4 ids with due 50-800 ms, removals, suspend/resume/pause windows, slow callbacks), Timeline walked under the cron's lock at quiescent points; Bolt-backed cron (overlay test in package main): operation sequences with harness-driven work() ticks, fires observed as hits on an httptest server, jobs<p>/time<p> buckets compared key for key after every operation and after every close/reopen; then a concurrent phase: a goroutine loops over the work() transactions of all partitions against an endpoint that holds each request open 40-120 ms while Add/Delete/Get run, with Deletes issued at the moment a request of that job is in flight (no request after Delete returned, none before due, recurring not more often than its occurrences, buckets compared at quiescent points); non-trivial = the job was replaced, removed, or overlapped a suspend/pause window (crolt: was deleted, duplicated or lived across a reopen); distinct by (run seed, pattern, job id, generation); in-memory patterns added in round 2: a recurring callback that returns an error once, 8 concurrent Adds of one id (twice) then Rem, schedules without an occurrence (30 February) or years away; crolt prelude: re-add of a fired one-shot's id inside the eviction window; `command-burst` (14 Pause calls in a row, then the pending job must fire); seven bursts of concurrent Adds; mem patterns `reversed-range-schedule` (cron expressions that make cronexpr panic) and `recurring-at-the-limit` (Limit 2, jobs added while the recurring job runs); crolt phases: six concurrent Adds of one id, an eviction due in the same scan as a due job, an every-second job polled every 50 ms, a schedule without occurrence, a 1 s jitter (no request before its occurrence, none twice)",
		Floor: [2]int{30, 100},
		Assumptions: []string{"no-early-fire and no-fire-after-Rem are judged on monotonic call/return stamps; 'fires when due' is bounded progress (due + 1.5 s, outside suspend/pause windows) judged only when a canary timer was on time", "crolt: a job's due time is the time in its own TId key (jitter set to 0)"},
		Stages: []Stage{
			{Name: "mem", Pkg: "./mon/c16", Race: true, Procs: 4, Batches: [2]int{2, 4}, TimeoutS: [2]int{600, 1800}},
			{Name: "crolt", OverlayPkg: "crolt", TestRun: "^TestVerifC16$", Procs: 2, Batches: [2]int{2, 4}, TimeoutS: [2]int{600, 1800},
				OverlayFiles: map[string]string{"crolt/zz_verif_c16_test.go": "crolt/zz_verif_c16_test.go", "crolt/zz_verif_util_test.go": "crolt/zz_verif_util_test.go", "crolt/zz_verif_rep_test.go": "gen:lib/rep/rep.go:main"}},
		},
	}
}

func init() {
	properties["C17"] = Property{
		Level: "exploration",
		Rule:  "cases: (twin) one request of a generated history over 3 locations executed under TTL {never, 1 ms, forever} x CheckExistence {off, on} x state {indexed, linear} and directly on core.Locations, all results compared (histories include `!cacheTTL` property facts with numeric and non-numeric values and clearing a location); with existence checking also requests to a never-created location (must fail, no trace in storage or cache); (first) one round of 8 concurrent first requests with seeded delays in sys.open.gap / sys.storage.gap, every fourth round a forced schedule (first opener parked in the gap); (overlap) one recorded register history of 3-5 overlapping clients under TTL never with requests held open by a sleeping action, checked per key by porcupine; non-trivial = the configurations differ in TTL and a location was re-opened (twin), always for first/overlap; distinct by (seed, history, configuration, request index); twin: a never-created location named as a parent and opened by an inherited search must still refuse direct requests; overlap: `slowEventReads` (an action notes its own clock, reads and writes while a client's write is acknowledged: a read later than the acknowledgement must contain it; TTL never / forever / 1 h); first: `firstGhost` (6 concurrent requests to a never-created location under existence checking + one to another location, 30 s watchdog); twin: create / add / DeleteLocation / add tail",
		Floor: [2]int{40, 400},
		Assumptions: []string{"load counts are read from GetStats().NewLocations and storage through PeekStorage (System offers no storage injection)", "the directly operated locations get the same cron hooks as the System wires (they make removing an absent id an error)"},
		Stages: []Stage{
			{Name: "twin", Pkg: "./mon/c17", Procs: 2, Batches: [2]int{3, 8}, TimeoutS: [2]int{900, 3600}},
			{Name: "first", Pkg: "./mon/c17", Race: true, Procs: 8, Batches: [2]int{2, 4}, TimeoutS: [2]int{900, 3600}, HangIsViolation: true},
			{Name: "overlap", Pkg: "./mon/c17", Race: true, Procs: 8, Batches: [2]int{2, 4}, TimeoutS: [2]int{900, 3600}, HangIsViolation: true},
		},
	}
}

func init() {
	properties["C18"] = Property{
		Level: "exploration",
		Rule:  "one case = (logical request of a generated history over the /api/loc/* family, rendering) with renderings {query parameters with /api, without /api, with a /v1.0 prefix, form body (with and without /api), JSON body (also under /v1.0/api), YAML body sniffed at the operation URI, /api/json envelope and /api/yaml and ProcessRequest with the uri spelled /api.., without /api, with a version prefix, element of /api/sys/util/batch under each spelling, and the whole history as one batch with the spelling varied per element}, each rendering on its own fresh engine, compared (status and normalised JSON result) with service.ProcessRequest called directly; arguments include strings that need URL/JSON/YAML escaping (in values, ids and location names); the histories include the one-parameter operations admin/create, clear, delete, size and rules/list; the direct calls are also compared with a sys.System twin; plus negative cases (each required parameter missing, ill-typed parameters, a uri that is not a string, unknown URI, failing operations) through every rendering that can express them; non-trivial = the rendering is not the direct call and an argument needs escaping, or the case is negative; distinct by (seed, history, request index, rendering); ids with quote and backslash; rules with a throwing condition and serial rules with a failing action (failing events); negatives with empty JSON-typed parameters; renderings without Content-Length (chunked JSON body, form, envelope); ids padded with blanks; facts/replace with and without id and the take switch of facts/search in the histories; negatives: take on a read-only location, util/js without / with ill-typed code; rules whose action returns NaN / Inf (listed finding c18.unrenderable-result); JSON bodies beginning with white space (a blank; a newline and tab indentation); events/retry with a fresh work document in the histories (System twin call) and with a throwing rule among the negatives",
		Floor: [2]int{300, 3000},
		Assumptions: []string{"generated request ids and timing fields are normalised away", "`set` of /api/loc/parents is rendered in its canonical JSON-string form"},
		Stages: []Stage{{Name: "encodings", Pkg: "./mon/c18", Procs: 2, Batches: [2]int{4, 8}, TimeoutS: [2]int{900, 3600}}},
	}
}
