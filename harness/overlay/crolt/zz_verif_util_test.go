package main

import "encoding/json"

func jsonUnmarshal(s string, v interface{}) error { return json.Unmarshal([]byte(s), v) }
