package main

// Injected into /repo/crolt (package main) by `go test -overlay`: the monitor
// for the Bolt-backed cron service (C16).  It uses the report writer of
// lib/rep, which the driver injects next to this file with its package clause
// rewritten.  The harness drives the work() ticks itself; fires are hits on an
// httptest server.

import (
	"fmt"
	"io/ioutil"
	"log"
	"math/rand"
	"net/http"
	"net/http/httptest"
	"os"
	"path/filepath"
	"sort"
	"strings"
	"sync"
	"testing"
	"time"

	"github.com/boltdb/bolt"
)

type vOp struct {
	Op      string `json:"op"`
	Account string `json:"account,omitempty"`
	Id      string `json:"id,omitempty"`
	Expr    string `json:"expr,omitempty"`
	Err     string `json:"err,omitempty"`
}

type vHit struct {
	Key string
	At  time.Time
}

type vJob struct {
	account, id string
	gen         int
	expr        string
	recurring   bool
	due         time.Time // from the TId at add time
	addedAt     time.Time
	deletedAt   time.Time // zero = not deleted
	duplicated  bool
	reopened    bool
}

func vParseTId(tid string) (time.Time, error) {
	i := strings.Index(tid, ",")
	if i < 0 {
		return time.Time{}, fmt.Errorf("no separator in %q", tid)
	}
	return time.Parse(time.RFC3339Nano, tid[:i])
}

// vConsistent compares jobs<p> and time<p> key for key.
func vConsistent(c *Cron) []string {
	var problems []string
	for p := 0; p < c.Partitions; p++ {
		jobs := map[string]string{}
		times := map[string]string{}
		c.Scan(fmt.Sprintf("jobs%d", p), func(b, k, v string) (bool, error) { jobs[k] = v; return false, nil })
		c.Scan(fmt.Sprintf("time%d", p), func(b, k, v string) (bool, error) { times[k] = v; return false, nil })
		seenAid := map[string]int{}
		for aid, js := range jobs {
			var j Job
			if err := jsonUnmarshal(js, &j); err != nil {
				problems = append(problems, "jobs entry does not parse: "+aid)
				continue
			}
			tv, ok := times[j.TId]
			if !ok {
				problems = append(problems, fmt.Sprintf("job %s names time key %q which is not in time%d", aid, j.TId, p))
			} else if tv != js {
				problems = append(problems, fmt.Sprintf("job %s and its time entry %q hold different records", aid, j.TId))
			}
		}
		for tid, js := range times {
			var j Job
			if err := jsonUnmarshal(js, &j); err != nil {
				problems = append(problems, "time entry does not parse: "+tid)
				continue
			}
			aid, _ := genAId(j.Account, j.Id)
			seenAid[aid]++
			jv, ok := jobs[aid]
			if !ok {
				problems = append(problems, fmt.Sprintf("time entry %q has no job %s in jobs%d", tid, aid, p))
			} else {
				var jj Job
				jsonUnmarshal(jv, &jj)
				if jj.TId != tid {
					problems = append(problems, fmt.Sprintf("time entry %q is stale: job %s now lives at %q", tid, aid, jj.TId))
				}
			}
		}
		for aid, n := range seenAid {
			if n > 1 {
				problems = append(problems, fmt.Sprintf("%d pending time entries for job %s", n, aid))
			}
		}
	}
	sort.Strings(problems)
	return problems
}

func TestVerifC16(t *testing.T) {
	log.SetOutput(ioutil.Discard)
	e := GetEnv()
	r := New(e)
	nSeq := e.Pick(6, 30)
	var hmu sync.Mutex
	hits := map[string][]time.Time{}
	srv := httptest.NewServer(http.HandlerFunc(func(w http.ResponseWriter, req *http.Request) {
		hmu.Lock()
		hits[req.URL.Path] = append(hits[req.URL.Path], time.Now())
		hmu.Unlock()
		fmt.Fprintln(w, "ok")
	}))
	defer srv.Close()
	nhits := func(k string) int {
		hmu.Lock()
		defer hmu.Unlock()
		return len(hits[k])
	}

	for si := 0; si < nSeq; si++ {
		rng := rand.New(rand.NewSource(e.BatchSeed()*7368787 + int64(si)))
		path := filepath.Join(e.Out, fmt.Sprintf("crolt-%d-%d.db", e.Batch, si))
		os.Remove(path)
		open := func() (*bolt.DB, *Cron) {
			db, err := bolt.Open(path, 0600, &bolt.Options{Timeout: 5 * time.Second})
			if err != nil {
				t.Fatal(err)
			}
			c, err := NewCron(db, 2, 0, 700*time.Millisecond)
			if err != nil {
				t.Fatal(err)
			}
			return db, c
		}
		db, c := open()
		var run []vOp
		jobsByKey := map[string]*vJob{} // current life per account,id
		var all []*vJob
		gen := 0
		accounts := []string{"acc1", "acc2", "acc3"}
		idpool := []string{"a", "b", "c"}
		tickAll := func() {
			// remember the due time of every live recurring job before the tick
			before := map[*vJob]time.Time{}
			counts := map[*vJob]int{}
			for _, j := range all {
				if j.recurring && j.deletedAt.IsZero() {
					if got, err := c.Get(j.account, j.id); err == nil {
						if d, err := vParseTId(got.TId); err == nil {
							before[j] = d
							counts[j] = nhits(fmt.Sprintf("/hit/%d/%s/%s/%d", si, j.account, j.id, j.gen))
						}
					}
				}
			}
			for p := 0; p < c.Partitions; p++ {
				if err := c.DB.Update(c.work(fmt.Sprint(p))); err != nil {
					r.Violate("", "work() failed: "+err.Error(), J{"history": run})
				}
			}
			now := time.Now()
			for j, due := range before {
				k := fmt.Sprintf("/hit/%d/%s/%s/%d", si, j.account, j.id, j.gen)
				if nhits(k) > counts[j] && now.Before(due) {
					r.Violate("", "a recurring job fired before the due time in its time key", J{"history": run, "job": k, "due": due, "tick_end": now})
				}
				if nhits(k) > counts[j]+1 {
					r.Violate("", "a recurring job fired more than once in one tick", J{"history": run, "job": k})
				}
			}
		}
		check := func() {
			if p := vConsistent(c); len(p) > 0 {
				r.Violate("", "the job table and the time index disagree: "+p[0], J{"history": run, "problems": p})
			}
		}
		if si%2 == 0 {
			// directed prelude: the id of a one-shot job that has fired stays taken until the job is
			// evicted (TTL 700 ms); re-adding it in that window is refused and changes nothing,
			// after the eviction it works again
			gen++
			up := fmt.Sprintf("%s/hit/%d/%s/%s/%d", srv.URL, si, "accE", "once", gen)
			j1 := &Job{Account: "accE", Id: "once", Expression: "100ms", Method: "GET", URL: up}
			before := time.Now()
			if err := c.Add(j1); err != nil {
				r.Violate("", "Add failed: "+err.Error(), J{"history": run})
			}
			due1, _ := vParseTId(j1.TId)
			v1 := &vJob{account: "accE", id: "once", gen: gen, expr: "100ms", due: due1, addedAt: before}
			all = append(all, v1)
			jobsByKey["accE,once"] = v1
			run = append(run, vOp{Op: "add", Account: "accE", Id: "once", Expr: "100ms"})
			time.Sleep(160 * time.Millisecond)
			tickAll()
			run = append(run, vOp{Op: "tick"})
			check()
			gen++
			j2 := &Job{Account: "accE", Id: "once", Expression: "100ms", Method: "GET", URL: fmt.Sprintf("%s/hit/%d/%s/%s/%d", srv.URL, si, "accE", "once", gen)}
			err := c.Add(j2)
			run = append(run, vOp{Op: "add", Account: "accE", Id: "once", Expr: "100ms", Err: fmt.Sprint(err)})
			r.Count("crolt_readd_in_eviction_window", 1)
			if err == nil {
				// accepted: then it is a job like any other (must fire once, buckets must agree)
				r.Count("crolt_readd_in_eviction_window_accepted", 1)
				d2, _ := vParseTId(j2.TId)
				v2 := &vJob{account: "accE", id: "once", gen: gen, expr: "100ms", due: d2, addedAt: time.Now()}
				all = append(all, v2)
				jobsByKey["accE,once"] = v2
			} else if err != Exists {
				r.Violate("", "Add failed: "+err.Error(), J{"history": run})
			}
			check()
			tickAll()
			check()
		}
		steps := 10 + rng.Intn(12)
		for s := 0; s < steps; s++ {
			o := vOp{Account: accounts[rng.Intn(3)], Id: idpool[rng.Intn(3)]}
			key := o.Account + "," + o.Id
			switch k := rng.Intn(12); {
			case k < 5:
				o.Op = "add"
				if rng.Intn(5) == 0 {
					o.Expr = "* * * * * * *"
				} else {
					o.Expr = fmt.Sprintf("%dms", 100+rng.Intn(700))
				}
				gen++
				j := &Job{Account: o.Account, Id: o.Id, Expression: o.Expr, Method: "GET", URL: fmt.Sprintf("%s/hit/%d/%s/%s/%d", srv.URL, si, o.Account, o.Id, gen)}
				if rng.Intn(4) == 0 {
					// a job document as a client may re-post it: it still carries the bookkeeping fields of
					// some job (here: the time key of another live job)
					for _, other := range all {
						if other.deletedAt.IsZero() && (other.account != o.Account || other.id != o.Id) {
							if got, err := c.Get(other.account, other.id); err == nil && got.TId != "" {
								j.TId = got.TId
								o.Expr += " (document carries the time key of " + other.account + "," + other.id + ")"
								break
							}
						}
					}
				}
				before := time.Now()
				err := c.Add(j)
				o.Err = fmt.Sprint(err)
				cur := jobsByKey[key]
				if cur != nil && cur.deletedAt.IsZero() && !evicted(c, cur) {
					// a live job with this key exists: Add must refuse and change nothing
					cur.duplicated = true
					if err != Exists {
						r.Violate("", "adding a job whose id exists did not return 'job exists'", J{"history": append(run, o)})
					}
				} else if err != nil {
					if err != Exists {
						r.Violate("", "Add failed: "+err.Error(), J{"history": append(run, o)})
					}
				} else {
					due, perr := vParseTId(j.TId)
					if perr != nil {
						r.Violate("", "the job's time key does not parse: "+j.TId, J{"history": append(run, o)})
					}
					vj := &vJob{account: o.Account, id: o.Id, gen: gen, expr: o.Expr, recurring: strings.Contains(o.Expr, "*"), due: due, addedAt: before}
					jobsByKey[key] = vj
					all = append(all, vj)
				}
			case k < 7:
				o.Op = "delete"
				err := c.Delete(o.Account, o.Id)
				o.Err = fmt.Sprint(err)
				if err != nil {
					r.Violate("", "Delete failed: "+err.Error(), J{"history": append(run, o)})
				}
				if cur := jobsByKey[key]; cur != nil && cur.deletedAt.IsZero() {
					cur.deletedAt = time.Now()
				}
				if _, err := c.Get(o.Account, o.Id); err != NotFound {
					r.Violate("", "a deleted job is still there", J{"history": append(run, o)})
				}
			case k < 9:
				o.Op = "tick"
				tickAll()
			case k < 10:
				o.Op = "sleep"
				time.Sleep(time.Duration(50+rng.Intn(250)) * time.Millisecond)
			default:
				o.Op = "reopen"
				db.Close()
				db, c = open()
				for _, j := range all {
					if j.deletedAt.IsZero() {
						j.reopened = true
					}
				}
			}
			run = append(run, o)
			r.Journal(J{"seq": si, "op": o})
			check()
		}
		// run the clock: tick every 20 ms for 1.6 s
		endTicks := time.Now().Add(1600 * time.Millisecond)
		for time.Now().Before(endTicks) {
			tickAll()
			time.Sleep(20 * time.Millisecond)
		}
		check()
		end := time.Now()
		// judge the job lives
		for _, j := range all {
			k := fmt.Sprintf("/hit/%d/%s/%s/%d", si, j.account, j.id, j.gen)
			hmu.Lock()
			hs := append([]time.Time{}, hits[k]...)
			hmu.Unlock()
			r.Case(!j.deletedAt.IsZero() || j.duplicated || j.reopened, fmt.Sprint(e.BatchSeed(), si, k))
			r.Count("crolt_job_lives", 1)
			w := J{"history": run, "job": k, "expr": j.expr, "due": j.due, "hits": hs, "deleted_at": j.deletedAt}
			for _, h := range hs {
				if h.Before(j.due) {
					r.Violate("", "a job fired before its due time", w)
				}
			}
			if j.recurring {
				continue
			}
			if len(hs) > 1 {
				r.Violate("", fmt.Sprintf("a one-shot job fired %d times", len(hs)), w)
			}
			if !j.deletedAt.IsZero() {
				if j.deletedAt.Before(j.due) && len(hs) > 0 {
					r.Violate("", "a job deleted before it was due fired anyway", w)
				}
				continue
			}
			if len(hs) == 0 && j.due.Add(800*time.Millisecond).Before(end) {
				r.Violate("", "a one-shot job did not fire although ticks ran for more than 800 ms after it was due", w)
			}
			if len(hs) == 1 && r.WantSample() {
				r.Sample(J{"service": "crolt", "job": k, "expr": j.expr, "due": j.due, "fired": hs[0], "history_len": len(run)})
			}
		}
		db.Close()
		os.Remove(path)
	}
	vSameIdAdds(t, r, e)
	vJitter(t, r, e)
	vEverySecond(t, r, e)
	vEvictionSameScan(t, r, e)
	vConcurrent(t, r, e)
	r.Write()
}

// vConcurrent: Add / Delete / Get from the test goroutine while another
// goroutine runs the work() transactions of every partition in a loop (as
// WorkLoops does) against an endpoint that holds each request open for a
// while, so that requests arrive while a job's HTTP call is in flight inside
// the work transaction.  Directed steps issue the Delete at exactly that
// moment.  Oracles: no request of a job arrives after its Delete returned, no
// request before the due time, a recurring job not more often than its
// occurrences, Get after Delete is NotFound, and at quiescent points (loop
// parked) the two buckets agree key for key.
// vEvictionSameScan: a one-shot job comes due in the same scan of its partition as the eviction of an
// older one-shot job (which fired one TTL earlier), sorting before it in the time index.  Polled
// three times in a row, the job fires once.
func vEvictionSameScan(t *testing.T, r *Report, e Env) {
	var mu sync.Mutex
	hits := map[string]int{}
	srv := httptest.NewServer(http.HandlerFunc(func(w http.ResponseWriter, req *http.Request) {
		mu.Lock()
		hits[req.URL.Path]++
		mu.Unlock()
		fmt.Fprintln(w, "ok")
	}))
	defer srv.Close()
	for round := 0; round < e.Pick(1, 4); round++ {
		path := filepath.Join(e.Out, fmt.Sprintf("crolt-evict-%d-%d.db", e.Batch, round))
		os.Remove(path)
		db, err := bolt.Open(path, 0600, &bolt.Options{Timeout: 5 * time.Second})
		if err != nil {
			t.Fatal(err)
		}
		c, err := NewCron(db, 1, 0, 1200*time.Millisecond)
		if err != nil {
			t.Fatal(err)
		}
		add := func(id, sched string) {
			j, jerr := NewJob("acct", id, sched)
			if jerr != nil {
				t.Fatal(jerr)
			}
			j.URL = srv.URL + fmt.Sprintf("/evict-%d-%d-%s", e.Batch, round, id)
			if aerr := c.Add(j); aerr != nil {
				r.Violate("", "Add failed: "+aerr.Error(), J{"phase": "eviction-same-scan", "id": id})
			}
		}
		poll := func() {
			if err := c.DB.Update(c.work("0")); err != nil {
				r.Violate("", "work() failed: "+err.Error(), J{"phase": "eviction-same-scan"})
			}
		}
		n := func(id string) int {
			mu.Lock()
			defer mu.Unlock()
			return hits[fmt.Sprintf("/evict-%d-%d-%s", e.Batch, round, id)]
		}
		start := time.Now()
		add("old", "1ms")
		time.Sleep(20 * time.Millisecond)
		poll() // old fires; its eviction is due one TTL later (start+1.22s)
		add("once", "1s")
		time.Sleep(start.Add(1500 * time.Millisecond).Sub(time.Now()))
		poll()
		p1 := vConsistent(c)
		poll()
		poll()
		p3 := vConsistent(c)
		r.Case(true, fmt.Sprint("eviction-same-scan", e.Batch, round))
		r.Count("crolt_eviction_same_scan_rounds", 1)
		if n("old") != 1 || n("once") != 1 || len(p1) > 0 || len(p3) > 0 {
			r.Violate("", fmt.Sprintf("a one-shot job due in the same scan as an older job's eviction fired %d times in three polls (the older one %d times)", n("once"), n("old")), J{"phase": "eviction-same-scan", "problems_after_first_poll": p1, "problems_after_third_poll": p3})
		}
		db.Close()
		os.Remove(path)
	}
}

// vEverySecond: a recurring job with an occurrence every second, the partition polled every 50 ms for
// 4.3 s: one request per occurrence (3 to 5 of them), none before its occurrence.
func vEverySecond(t *testing.T, r *Report, e Env) {
	var mu sync.Mutex
	var at []time.Time
	srv := httptest.NewServer(http.HandlerFunc(func(w http.ResponseWriter, req *http.Request) {
		mu.Lock()
		at = append(at, time.Now())
		mu.Unlock()
		fmt.Fprintln(w, "ok")
	}))
	defer srv.Close()
	path := filepath.Join(e.Out, fmt.Sprintf("crolt-everysec-%d.db", e.Batch))
	os.Remove(path)
	db, err := bolt.Open(path, 0600, &bolt.Options{Timeout: 5 * time.Second})
	if err != nil {
		t.Fatal(err)
	}
	defer func() { db.Close(); os.Remove(path) }()
	c, err := NewCron(db, 1, 0, 700*time.Millisecond)
	if err != nil {
		t.Fatal(err)
	}
	j, _ := NewJob("acct", "every", "* * * * * * *")
	j.URL = srv.URL + "/every"
	start := time.Now()
	if err := c.Add(j); err != nil {
		r.Violate("", "Add of an every-second job failed: "+err.Error(), J{"phase": "every-second"})
		return
	}
	canary := 0
	for time.Since(start) < 4300*time.Millisecond {
		t0 := time.Now()
		if err := c.DB.Update(c.work("0")); err != nil {
			r.Violate("", "work() failed: "+err.Error(), J{"phase": "every-second"})
			return
		}
		if time.Since(t0) > 400*time.Millisecond {
			canary++
		}
		time.Sleep(50 * time.Millisecond)
	}
	mu.Lock()
	fires := append([]time.Time{}, at...)
	mu.Unlock()
	r.Case(true, fmt.Sprint("every-second", e.Batch))
	r.Count("crolt_every_second_runs", 1)
	var offs []int64
	for _, f := range fires {
		offs = append(offs, f.Sub(start).Milliseconds())
	}
	if canary > 0 {
		r.Inconclusive("slow polls")
		return
	}
	if len(fires) < 3 || len(fires) > 5 {
		r.Violate("", fmt.Sprintf("an every-second job polled every 50 ms for 4.3 s sent %d requests (3 to 5 occurrences fall into that time)", len(fires)), J{"phase": "every-second", "fires_ms_after_add": offs})
	}
	// a schedule without any occurrence (30 February): refused or accepted, the job does not fire
	c.Delete("acct", "every")
	mu.Lock()
	before := len(at)
	mu.Unlock()
	nj, _ := NewJob("acct", "never", "0 0 30 2 *")
	nj.URL = srv.URL + "/never"
	aerr := c.Add(nj)
	for i := 0; i < 10; i++ {
		if err := c.DB.Update(c.work("0")); err != nil {
			r.Violate("", "work() failed: "+err.Error(), J{"phase": "no-occurrence"})
			return
		}
		time.Sleep(20 * time.Millisecond)
	}
	mu.Lock()
	extra := len(at) - before
	mu.Unlock()
	r.Case(true, fmt.Sprint("no-occurrence", e.Batch))
	r.Count("crolt_no_occurrence_runs", 1)
	if extra > 0 {
		r.Violate("", fmt.Sprintf("a job whose schedule has no occurrence (30 February) sent %d requests in 10 polls", extra), J{"phase": "no-occurrence", "add_error": fmt.Sprint(aerr)})
	}
}

// vJitter: with a jitter configured (the default service has one) the requests of recurring jobs are
// spread out, but none goes out before the occurrence it is for, and none goes out twice.
func vJitter(t *testing.T, r *Report, e Env) {
	var mu sync.Mutex
	at := map[string][]time.Time{}
	srv := httptest.NewServer(http.HandlerFunc(func(w http.ResponseWriter, req *http.Request) {
		mu.Lock()
		at[req.URL.Path] = append(at[req.URL.Path], time.Now())
		mu.Unlock()
		fmt.Fprintln(w, "ok")
	}))
	defer srv.Close()
	path := filepath.Join(e.Out, fmt.Sprintf("crolt-jitter-%d.db", e.Batch))
	os.Remove(path)
	db, err := bolt.Open(path, 0600, &bolt.Options{Timeout: 5 * time.Second})
	if err != nil {
		t.Fatal(err)
	}
	defer func() { db.Close(); os.Remove(path) }()
	c, err := NewCron(db, 1, 1000*time.Millisecond, 700*time.Millisecond)
	if err != nil {
		t.Fatal(err)
	}
	for i := 0; i < 4; i++ {
		j, _ := NewJob("acct", fmt.Sprintf("even%d", i), "*/2 * * * * * *")
		j.URL = srv.URL + fmt.Sprintf("/even%d", i)
		if err := c.Add(j); err != nil {
			r.Violate("", "Add failed: "+err.Error(), J{"phase": "jitter"})
			return
		}
	}
	start := time.Now()
	slow := 0
	for time.Since(start) < 6300*time.Millisecond {
		t0 := time.Now()
		if err := c.DB.Update(c.work("0")); err != nil {
			r.Violate("", "work() failed: "+err.Error(), J{"phase": "jitter"})
			return
		}
		if time.Since(t0) > 300*time.Millisecond {
			slow++
		}
		time.Sleep(40 * time.Millisecond)
	}
	r.Case(true, fmt.Sprint("jitter", e.Batch))
	r.Count("crolt_jitter_runs", 1)
	if slow > 0 {
		r.Inconclusive("slow polls")
		return
	}
	mu.Lock()
	defer mu.Unlock()
	// occurrences are the even seconds; a request in the 500 ms before one is early for it (and too late,
	// by more than the whole jitter, for the one before)
	var early []string
	total := 0
	for p, ts := range at {
		total += len(ts)
		for _, f := range ts {
			ms := f.UnixNano() / 1e6 % 2000
			if ms >= 1500 {
				early = append(early, fmt.Sprintf("%s %d ms before an occurrence", p, 2000-ms))
			}
		}
	}
	if len(early) > 0 || total > 4*4 {
		r.Violate("", fmt.Sprintf("with a jitter of 1 s, %d of %d requests of every-two-seconds jobs went out before their occurrence (at most %d occurrences fall into the run)", len(early), total, 4*4), J{"phase": "jitter", "early": early, "requests": total})
	}
}

// vSameIdAdds: several clients add a job under one (account, id) at the same time.  The service
// refuses a job that exists, so exactly one Add is accepted, and the job has one entry in the
// time index (removing it then leaves nothing behind).
func vSameIdAdds(t *testing.T, r *Report, e Env) {
	for round := 0; round < e.Pick(4, 20); round++ {
		path := filepath.Join(e.Out, fmt.Sprintf("crolt-sameid-%d-%d.db", e.Batch, round))
		os.Remove(path)
		db, err := bolt.Open(path, 0600, &bolt.Options{Timeout: 5 * time.Second})
		if err != nil {
			t.Fatal(err)
		}
		c, err := NewCron(db, 2, 0, 700*time.Millisecond)
		if err != nil {
			t.Fatal(err)
		}
		const adders = 6
		errs := make([]error, adders)
		var wg sync.WaitGroup
		gate := make(chan struct{})
		for a := 0; a < adders; a++ {
			wg.Add(1)
			go func(a int) {
				defer wg.Done()
				j, jerr := NewJob("acc", "same", fmt.Sprintf("+%dh", 1+a))
				if jerr != nil {
					errs[a] = jerr
					return
				}
				j.URL = "http://127.0.0.1:1/never"
				<-gate
				errs[a] = c.Add(j)
			}(a)
		}
		close(gate)
		wg.Wait()
		accepted := 0
		for _, err := range errs {
			if err == nil {
				accepted++
			}
		}
		problems := vConsistent(c)
		r.Case(true, fmt.Sprint("same-id-adds", e.Batch, round))
		r.Count("crolt_same_id_add_bursts", 1)
		if accepted != 1 || len(problems) > 0 {
			r.Violate("", fmt.Sprintf("%d concurrent Adds of one job id: %d accepted (the service refuses a job that exists); table and time index: %v", adders, accepted, problems), J{"phase": "same-id-adds", "accepted": accepted, "problems": problems})
		} else if err := c.Delete("acc", "same"); err != nil {
			r.Violate("", "Delete after the burst failed: "+err.Error(), J{"phase": "same-id-adds"})
		} else {
			left := 0
			for p := 0; p < c.Partitions; p++ {
				c.Scan(fmt.Sprintf("time%d", p), func(b, k, v string) (bool, error) { left++; return false, nil })
			}
			if left != 0 {
				r.Violate("", fmt.Sprintf("after the job was deleted %d entries of it are still in the time index (it will fire)", left), J{"phase": "same-id-adds"})
			}
		}
		db.Close()
		os.Remove(path)
	}
}

func vConcurrent(t *testing.T, r *Report, e Env) {
	nSeq := e.Pick(3, 14)
	for si := 0; si < nSeq; si++ {
		rng := rand.New(rand.NewSource(e.BatchSeed()*9176471 + int64(si)))
		var hmu sync.Mutex
		hits := map[string][]time.Time{}
		inflight := make(chan string, 4096)
		hold := time.Duration(40+rng.Intn(80)) * time.Millisecond
		srv := httptest.NewServer(http.HandlerFunc(func(w http.ResponseWriter, req *http.Request) {
			hmu.Lock()
			hits[req.URL.Path] = append(hits[req.URL.Path], time.Now())
			hmu.Unlock()
			select {
			case inflight <- req.URL.Path:
			default:
			}
			time.Sleep(hold)
			fmt.Fprintln(w, "ok")
		}))
		path := filepath.Join(e.Out, fmt.Sprintf("crolt-conc-%d-%d.db", e.Batch, si))
		os.Remove(path)
		db, err := bolt.Open(path, 0600, &bolt.Options{Timeout: 5 * time.Second})
		if err != nil {
			t.Fatal(err)
		}
		c, err := NewCron(db, 2, 0, 700*time.Millisecond)
		if err != nil {
			t.Fatal(err)
		}
		var run []vOp
		var rmu sync.Mutex
		history := func() []vOp {
			rmu.Lock()
			defer rmu.Unlock()
			return append([]vOp{}, run...)
		}
		var tickMu sync.Mutex
		stop := make(chan bool)
		done := make(chan bool)
		go func() {
			defer close(done)
			for {
				select {
				case <-stop:
					return
				default:
				}
				tickMu.Lock()
				for p := 0; p < c.Partitions; p++ {
					if err := c.DB.Update(c.work(fmt.Sprint(p))); err != nil {
						r.Violate("", "work() failed: "+err.Error(), J{"history": history(), "phase": "concurrent"})
					}
				}
				tickMu.Unlock()
				time.Sleep(15 * time.Millisecond)
			}
		}()
		check := func() {
			tickMu.Lock()
			defer tickMu.Unlock()
			if p := vConsistent(c); len(p) > 0 {
				r.Violate("", "the job table and the time index disagree: "+p[0], J{"history": history(), "problems": p, "phase": "concurrent"})
			}
			r.Count("crolt_concurrent_quiescent_checks", 1)
		}
		jobsByKey := map[string]*vJob{}
		byPath := map[string]*vJob{}
		var all []*vJob
		gen := 0
		accounts := []string{"acc1", "acc2"}
		idpool := []string{"a", "b"}
		del := func(o *vOp, key string) {
			t0 := time.Now()
			err := c.Delete(o.Account, o.Id)
			o.Err = fmt.Sprint(err)
			if err != nil {
				r.Violate("", "Delete failed: "+err.Error(), J{"history": append(history(), *o), "phase": "concurrent"})
			}
			if time.Since(t0) > 10*time.Millisecond {
				r.Count("crolt_delete_waited_for_a_work_transaction", 1)
			}
			if cur := jobsByKey[key]; cur != nil && cur.deletedAt.IsZero() {
				cur.deletedAt = time.Now()
			}
			if _, err := c.Get(o.Account, o.Id); err != NotFound {
				r.Violate("", "a deleted job is still there", J{"history": append(history(), *o), "phase": "concurrent"})
			}
		}
		steps := 10 + rng.Intn(8)
		for s := 0; s < steps; s++ {
			o := vOp{Account: accounts[rng.Intn(2)], Id: idpool[rng.Intn(2)]}
			key := o.Account + "," + o.Id
			switch k := rng.Intn(12); {
			case k < 5:
				o.Op = "add"
				if rng.Intn(3) != 0 {
					o.Expr = "* * * * * * *"
				} else {
					o.Expr = fmt.Sprintf("%dms", 100+rng.Intn(500))
				}
				gen++
				up := fmt.Sprintf("/conc/%d/%s/%s/%d", si, o.Account, o.Id, gen)
				j := &Job{Account: o.Account, Id: o.Id, Expression: o.Expr, Method: "GET", URL: srv.URL + up}
				before := time.Now()
				err := c.Add(j)
				o.Err = fmt.Sprint(err)
				if err == nil {
					due, perr := vParseTId(j.TId)
					if perr != nil {
						r.Violate("", "the job's time key does not parse: "+j.TId, J{"history": append(history(), o)})
					}
					if cur := jobsByKey[key]; cur != nil && cur.deletedAt.IsZero() && cur.recurring {
						r.Violate("", "adding a job whose id exists did not return 'job exists'", J{"history": append(history(), o), "phase": "concurrent"})
					}
					vj := &vJob{account: o.Account, id: o.Id, gen: gen, expr: o.Expr, recurring: strings.Contains(o.Expr, "*"), due: due, addedAt: before}
					jobsByKey[key] = vj
					byPath[up] = vj
					all = append(all, vj)
				} else if err != Exists {
					r.Violate("", "Add failed: "+err.Error(), J{"history": append(history(), o), "phase": "concurrent"})
				}
			case k < 7:
				o.Op = "delete"
				del(&o, key)
			case k < 10:
				// directed: delete a job at the moment its request is in flight
				o.Op = "delete-in-flight"
			drain:
				for {
					select {
					case <-inflight:
					default:
						break drain
					}
				}
				deadline := time.After(1300 * time.Millisecond)
				var target *vJob
			wait:
				for target == nil {
					select {
					case p := <-inflight:
						if j := byPath[p]; j != nil && j.deletedAt.IsZero() && jobsByKey[j.account+","+j.id] == j {
							target = j
						}
					case <-deadline:
						break wait
					}
				}
				if target != nil {
					o.Account, o.Id = target.account, target.id
					r.Count("crolt_delete_issued_while_request_in_flight", 1)
					del(&o, o.Account+","+o.Id)
				} else {
					o.Err = "nothing in flight"
				}
			case k < 11:
				o.Op = "sleep"
				time.Sleep(time.Duration(50+rng.Intn(400)) * time.Millisecond)
			default:
				o.Op = "get"
				_, err := c.Get(o.Account, o.Id)
				o.Err = fmt.Sprint(err)
				cur := jobsByKey[key]
				if (cur == nil || !cur.deletedAt.IsZero()) && err != NotFound {
					r.Violate("", "Get finds a job that was deleted or never added", J{"history": append(history(), o), "phase": "concurrent"})
				}
				if cur != nil && cur.deletedAt.IsZero() && cur.recurring && err != nil {
					r.Violate("", "Get does not find a live recurring job: "+err.Error(), J{"history": append(history(), o), "phase": "concurrent"})
				}
			}
			rmu.Lock()
			run = append(run, o)
			rmu.Unlock()
			r.Journal(J{"conc_seq": si, "op": o})
			if rng.Intn(3) == 0 {
				check()
			}
		}
		time.Sleep(1300 * time.Millisecond)
		close(stop)
		<-done
		check()
		for _, j := range all {
			if !j.deletedAt.IsZero() {
				if _, err := c.Get(j.account, j.id); err != NotFound && jobsByKey[j.account+","+j.id] == j {
					r.Violate("", "a deleted job is back in the job table", J{"history": run, "phase": "concurrent", "job": j.account + "," + j.id})
				}
			}
		}
		srv.Close()
		for _, j := range all {
			k := fmt.Sprintf("/conc/%d/%s/%s/%d", si, j.account, j.id, j.gen)
			hmu.Lock()
			hs := append([]time.Time{}, hits[k]...)
			hmu.Unlock()
			r.Case(true, fmt.Sprint(e.BatchSeed(), "conc", si, k))
			r.Count("crolt_concurrent_job_lives", 1)
			r.Count("crolt_concurrent_requests_seen", len(hs))
			w := J{"history": run, "phase": "concurrent", "job": k, "expr": j.expr, "due": j.due, "hits": hs, "deleted_at": j.deletedAt, "hold_ms": hold.Milliseconds()}
			for i, h := range hs {
				if h.Before(j.due) {
					r.Violate("", "a job fired before its due time", w)
					break
				}
				if j.recurring && h.Before(j.due.Add(time.Duration(i)*time.Second)) {
					r.Violate("", fmt.Sprintf("request %d of a recurring job came before its occurrence (more fires than occurrences)", i+1), w)
					break
				}
				if !j.deletedAt.IsZero() && h.After(j.deletedAt) {
					r.Violate("", "a job fired after its Delete had returned", w)
					break
				}
			}
			if !j.recurring && len(hs) > 1 {
				r.Violate("", fmt.Sprintf("a one-shot job fired %d times", len(hs)), w)
			}
		}
		db.Close()
		os.Remove(path)
	}
}

// evicted: a one-shot job that has fired stays in the table (marked Evict) until its TTL; it still blocks Add.
func evicted(c *Cron, j *vJob) bool {
	_, err := c.Get(j.account, j.id)
	return err == NotFound
}
