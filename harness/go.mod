module verif

go 1.14

require (
	github.com/Comcast/rulio v0.0.0
	github.com/anishathalye/porcupine v1.3.0
	gopkg.in/yaml.v2 v2.3.0
)

replace github.com/Comcast/rulio => /repo
