module verif

go 1.14

require (
	github.com/Comcast/rulio v0.0.0
	github.com/anishathalye/porcupine v1.3.0
)

replace github.com/Comcast/rulio => /repo
