// Monitor for C14: script execution is contained.  Script families
// {value, throws, invalid, non-terminating, slow-but-finishing} x timeout
// setting {location control, system default, timeouts disabled} x position
// {RunJavascript, rule condition, rule action}.  Bounded-progress clauses are
// judged against a canary timer armed in the same runtime (DESIGN §4.10).
package main

import (
	"fmt"
	"os"
	"strings"
	"time"

	"github.com/Comcast/rulio/core"

	"verif/lib/drv"
	"verif/lib/gen"
	"verif/lib/rep"
)

type script struct {
	Family string `json:"family"`
	Body   string `json:"body"` // statements
	Expr   string `json:"expr"` // last expression (the value)
	Want   string `json:"want,omitempty"` // for finishing scripts: fmt.Sprint of the value
}

func (s script) Code() string { return s.Body + s.Expr }

// all scripts see x (string "b") and n (number 41) and must not see zz.
var scripts = []script{
	{"value", "", "1+1", "2"},
	{"value", "", "x + 'c'", "bc"},
	{"value", "", "n + 1", "42"},
	{"value", "", "typeof x + '|' + typeof n + '|' + typeof zz", "string|number|undefined"},
	{"value", "var t = 0; for (var i = 0; i < 2000; i++) { t += i; } ", "String(t)", "1999000"},
	{"throws", "throw 'boom'; ", "1", ""},
	{"throws", "throw new Error('bad'); ", "1", ""},
	{"throws", "", "undefinedFn()", ""},
	{"throws", "", "null.f", ""},
	{"invalid", "{{{ nope ", "1", ""},
	{"invalid", "var = ; ", "1", ""},
	{"nonterminating", "while(true){} ", "1", ""},
	{"nonterminating", "var q = 0; for(;;){ q++ } ", "1", ""},
	{"slow", "Env.sleep(30000000); ", "'slept'", "slept"},
	// a script must not be able to swallow its own timeout
	{"nonterminating", "var q = 0; try { while(true){ q++ } } catch (e) { q = -1 } ", "'swallowed'", ""},
	{"nonterminating", "var q = 0; try { for(;;){ q++ } } finally { q = -2 } ", "'after finally'", ""},
	{"nonterminating", "var q = 0; while (true) { try { q++ } catch (e) { } } ", "1", ""},
}

type tcase struct {
	Script  script `json:"script"`
	Setting string `json:"timeout_setting"` // control | default | disabled
	LimitMs int    `json:"limit_ms"`
	Pos     string `json:"position"` // run | condition | action
	State   string `json:"state"`
}

type outcome struct {
	returned bool
	elapsed  time.Duration
	err      string // error / non-complete disposition text ("" = success)
	value    string
	canaryLate time.Duration
}

const defaultLimit = 400 * time.Millisecond

func run(c tcase) outcome {
	loc, err := drv.NewLoc("J", c.State, drv.MustMem())
	if err != nil {
		panic(err)
	}
	ctl := core.DefaultControl()
	limit := defaultLimit
	if c.Setting == "control" {
		limit = time.Duration(c.LimitMs) * time.Millisecond
		ctl.JavascriptTimeout = core.Duration(limit)
	}
	loc.SetControl(ctl)
	ctx := drv.Ctx()
	bs := core.Bindings{"x": "b", "n": 41.0}
	if c.Pos != "run" {
		rule := core.Map{"when": map[string]interface{}{"pattern": map[string]interface{}{"go": "?x", "num": "?n"}}}
		if strings.HasPrefix(c.Pos, "condition") {
			leaf := map[string]interface{}{"code": "(" + wrapCond(c.Script) + ")"}
			var cond map[string]interface{}
			switch c.Pos {
			case "condition-or": // a failing script under `or` next to a true disjunct
				cond = map[string]interface{}{"or": []interface{}{leaf, map[string]interface{}{"code": "true"}}}
			case "condition-and":
				cond = map[string]interface{}{"and": []interface{}{map[string]interface{}{"code": "true"}, leaf}}
			case "condition-not":
				cond = map[string]interface{}{"not": map[string]interface{}{"and": []interface{}{leaf, map[string]interface{}{"code": "false"}}}}
			default:
				cond = leaf
			}
			rule["condition"] = cond
			rule["action"] = map[string]interface{}{"code": "'acted'"}
		} else {
			rule["action"] = map[string]interface{}{"code": c.Script.Code()}
		}
		if _, err := loc.AddRule(ctx, "jr", rule); err != nil {
			return outcome{returned: true, err: "AddRule: " + err.Error()}
		}
	}
	var o outcome
	canaryAt := make(chan time.Time, 1)
	start := time.Now()
	time.AfterFunc(limit, func() { canaryAt <- time.Now() })
	done := make(chan struct{})
	go func() {
		defer close(done)
		switch c.Pos {
		case "run":
			v, err := loc.RunJavascript(ctx, c.Script.Code(), nil, &bs, nil)
			o.err = drv.ErrStr(err)
			o.value = fmt.Sprint(v)
		default:
			fr, cond := loc.ProcessEvent(ctx, core.Map{"go": "b", "num": 41.0})
			if cond != nil {
				o.err = "cond: " + cond.Msg
			}
			for _, er := range fr.Children {
				for _, erc := range er.Children {
					if erc.Disposition != nil && erc.Disposition != core.Complete {
						o.err = "condition node: " + erc.Disposition.Msg
					}
					for _, era := range erc.Children {
						if era.Disposition != nil && era.Disposition != core.Complete {
							o.err = "action node: " + era.Disposition.Msg
						}
						o.value = fmt.Sprint(era.Value)
					}
				}
			}
			if strings.HasPrefix(c.Pos, "condition") && len(fr.Values) == 0 && o.err == "" {
				o.value = "<condition rejected>"
			}
		}
	}()
	wall := limit + 12*time.Second
	select {
	case <-done:
		o.returned = true
		o.elapsed = time.Since(start)
	case <-time.After(wall):
		o.returned = false
		o.elapsed = time.Since(start)
	}
	select {
	case t := <-canaryAt:
		o.canaryLate = t.Sub(start) - limit
	default:
		o.canaryLate = -1
	}
	return o
}

// wrapCond turns a script into a condition whose value is the script's value.
func wrapCond(s script) string {
	return "function(){ " + s.Body + " return " + s.Expr + " }()"
}

func main() {
	e := rep.GetEnv()
	r := rep.New(e)
	g := gen.New(e.BatchSeed())
	disabled := os.Getenv("C14_TIMEOUTS") == "off"
	if disabled {
		core.SystemParameters.JavascriptTimeouts = false
	}
	core.SystemParameters.DefaultJavascriptTimeout = defaultLimit
	reps := e.Pick(2, 6)
	hung := 0
	for rp := 0; rp < reps && hung == 0; rp++ {
		for _, sc := range scripts {
			if disabled && sc.Family == "nonterminating" {
				continue
			}
			for _, pos := range []string{"run", "condition", "action", "condition-or", "condition-and", "condition-not"} {
				if strings.HasPrefix(pos, "condition") && sc.Family == "invalid" {
					continue // an invalid condition is wrapped and would change the program; invalid is covered by run/action
				}
				if strings.HasPrefix(pos, "condition-") && (sc.Family == "value" || sc.Family == "slow") {
					continue // the composite conditions are there for the failing families
				}
				settings := []string{"control", "default"}
				if disabled {
					settings = []string{"disabled"}
				}
				for _, setting := range settings {
					c := tcase{Script: sc, Setting: setting, Pos: pos, State: drv.Kinds[g.Intn(2)], LimitMs: 50 + g.Intn(6)*50}
					if setting != "control" {
						c.LimitMs = int(defaultLimit / time.Millisecond)
					}
					if sc.Family == "slow" && c.LimitMs < 150 {
						c.LimitMs = 150
					}
					r.Journal(c)
					o := run(c)
					nontrivial := sc.Family != "value" || setting != "disabled"
					r.Case(nontrivial, fmt.Sprint(c))
					wit := rep.J{"case": c, "returned": o.returned, "elapsed_ms": o.elapsed.Milliseconds(), "error": o.err, "value": o.value, "canary_late_ms": o.canaryLate.Milliseconds()}
					limit := time.Duration(c.LimitMs) * time.Millisecond
					if !o.returned {
						if o.canaryLate >= 0 && o.canaryLate < 2*time.Second {
							r.Violate("", fmt.Sprintf("the call did not return %v after its %v limit (the canary timer armed for the same instant fired on time)", o.elapsed-limit, limit), wit)
							hung++
						} else {
							r.Inconclusive("canary late")
						}
						if hung > 0 {
							break
						}
						continue
					}
					switch sc.Family {
					case "nonterminating":
						if o.err == "" {
							r.Violate("", "a script that ran past the timeout was reported as success", wit)
						}
						if o.elapsed < limit-5*time.Millisecond {
							r.Violate("", "a script was stopped before the configured limit", wit)
						}
						r.Count("timeouts_observed", 1)
					case "throws", "invalid":
						if o.err == "" {
							r.Violate("", "a throwing / invalid script was reported as success", wit)
						}
					default:
						if o.err != "" {
							r.Violate("", "a script that finishes within the limit failed: "+o.err, wit)
						} else {
							want := sc.Want
							if strings.HasPrefix(pos, "condition") {
								want = "acted" // the condition's value is truthy/non-null, the action runs
							}
							if o.value != want {
								r.Violate("", fmt.Sprintf("a finishing script produced %q, expected %q", o.value, want), wit)
							} else if r.WantSample() {
								r.Sample(wit)
							}
						}
					}
				}
				if hung > 0 {
					break
				}
			}
			if hung > 0 {
				break
			}
		}
	}
	r.Write()
	fmt.Fprintf(os.Stderr, "c14 batch %d: %d evaluations\n", e.Batch, r.Evaluations)
	os.Exit(0)
}
