// Monitor for C14: script execution is contained.  Script families
// {value, throws, invalid, non-terminating, slow-but-finishing} x timeout
// setting {location control, system default, timeouts disabled} x position
// {RunJavascript, rule condition, rule action}.  Bounded-progress clauses are
// judged against a canary timer armed in the same runtime (DESIGN §4.10).
package main

import (
	"encoding/base64"
	"fmt"
	"os"
	"sort"
	"strings"
	"time"

	"github.com/Comcast/rulio/core"

	"verif/lib/drv"
	"verif/lib/gen"
	"verif/lib/rep"
)

type script struct {
	Family string `json:"family"`
	Body   string `json:"body"`           // statements
	Expr   string `json:"expr"`           // last expression (the value)
	Want   string `json:"want,omitempty"` // for finishing scripts: fmt.Sprint of the value
}

func (s script) Code() string { return s.Body + s.Expr }

// all scripts see x (string "b") and n (number 41) and must not see zz.
var scripts = []script{
	{"value", "", "1+1", "2"},
	{"value", "", "x + 'c'", "bc"},
	{"value", "", "n + 1", "42"},
	{"value", "", "typeof x + '|' + typeof n + '|' + typeof zz", "string|number|undefined"},
	{"value", "var t = 0; for (var i = 0; i < 2000; i++) { t += i; } ", "String(t)", "1999000"},
	{"throws", "throw 'boom'; ", "1", ""},
	{"throws", "throw new Error('bad'); ", "1", ""},
	{"throws", "", "undefinedFn()", ""},
	{"throws", "", "null.f", ""},
	{"throws", "throw {toString: function(){ throw 1 }}; ", "1", ""},
	{"throws", "throw {valueOf: function(){ return {} }, toString: function(){ return {} }}; ", "1", ""},
	// unbounded recursion ends as an error of the script (a RangeError), not as a stack overflow of the process
	{"throws", "function f(n){ return f(n+1) }; ", "f(0)", ""},
	{"invalid", "{{{ nope ", "1", ""},
	{"invalid", "var = ; ", "1", ""},
	{"nonterminating", "while(true){} ", "1", ""},
	{"nonterminating", "var q = 0; for(;;){ q++ } ", "1", ""},
	{"slow", "Env.sleep(30000000); ", "'slept'", "slept"},
	// a script must not be able to swallow its own timeout
	{"nonterminating", "var q = 0; try { while(true){ q++ } } catch (e) { q = -1 } ", "'swallowed'", ""},
	{"nonterminating", "var q = 0; try { for(;;){ q++ } } finally { q = -2 } ", "'after finally'", ""},
	{"nonterminating", "var q = 0; while (true) { try { q++ } catch (e) { } } ", "1", ""},
	// the value of the last expression is read after the script has run: an object whose
	// properties are computed by getters still runs script code at that point
	{"value", "", "({get a(){ var t = 0; for (var i = 0; i < 10; i++) { t += i; } return t; }, b: 2})", "map[a:45 b:2]"},
	{"value", "var o = {}; Object.defineProperty(o, 'c', {enumerable: true, get: function(){ var u = 1; u = u + 1; u = u * 3; return u; }}); ", "o", "map[c:6]"},
	{"nonterminating", "", "({get a(){ var q = 0; while(true){ q++ } }})", ""},
	// time spent inside a function the engine offers (here: sleeping) counts, too
	{"oversleep", "Env.sleep(900000000); ", "'late'", ""},
	{"oversleep", "", "Env.sleep(900000000)", ""},
}

type tcase struct {
	Script  script `json:"script"`
	Setting string `json:"timeout_setting"` // control | default | disabled
	LimitMs int    `json:"limit_ms"`
	Pos     string `json:"position"` // run | condition | action
	State   string `json:"state"`
}

type outcome struct {
	returned   bool
	elapsed    time.Duration
	err        string // error / non-complete disposition text ("" = success)
	value      string
	canaryLate time.Duration
}

const defaultLimit = 400 * time.Millisecond

func run(c tcase) outcome { return runFor(c, 12*time.Second) }

// runFor: as run, waiting `grace` beyond the limit for the call to return.
func runFor(c tcase, grace time.Duration) outcome {
	loc, err := drv.NewLoc("J", c.State, drv.MustMem())
	if err != nil {
		panic(err)
	}
	ctl := core.DefaultControl()
	limit := defaultLimit
	if c.Setting == "control" {
		limit = time.Duration(c.LimitMs) * time.Millisecond
		ctl.JavascriptTimeout = core.Duration(limit)
	}
	if c.Setting == "control-negative" {
		// documented in RunJavascript: a negative location timeout means no timeout for that location
		ctl.JavascriptTimeout = core.Duration(-1)
	}
	loc.SetControl(ctl)
	ctx := drv.Ctx()
	bs := core.Bindings{"x": "b", "n": 41.0}
	if c.Pos != "run" && c.Pos != "run-nolocation" {
		rule := core.Map{"when": map[string]interface{}{"pattern": map[string]interface{}{"go": "?x", "num": "?n"}}}
		if strings.HasPrefix(c.Pos, "condition") {
			leaf := map[string]interface{}{"code": "(" + wrapCond(c.Script) + ")"}
			var cond map[string]interface{}
			switch c.Pos {
			case "condition-or": // a failing script under `or` next to a true disjunct
				cond = map[string]interface{}{"or": []interface{}{leaf, map[string]interface{}{"code": "true"}}}
			case "condition-and":
				cond = map[string]interface{}{"and": []interface{}{map[string]interface{}{"code": "true"}, leaf}}
			case "condition-not":
				cond = map[string]interface{}{"not": map[string]interface{}{"and": []interface{}{leaf, map[string]interface{}{"code": "false"}}}}
			default:
				cond = leaf
			}
			rule["condition"] = cond
			rule["action"] = map[string]interface{}{"code": "'acted'"}
		} else {
			rule["action"] = map[string]interface{}{"code": c.Script.Code()}
		}
		if _, err := loc.AddRule(ctx, "jr", rule); err != nil {
			return outcome{returned: true, err: "AddRule: " + err.Error()}
		}
	}
	var o outcome
	canaryAt := make(chan time.Time, 1)
	start := time.Now()
	time.AfterFunc(limit, func() { canaryAt <- time.Now() })
	done := make(chan struct{})
	go func() {
		defer close(done)
		switch c.Pos {
		case "run":
			v, err := loc.RunJavascript(ctx, c.Script.Code(), nil, &bs, nil)
			o.err = drv.ErrStr(err)
			o.value = fmt.Sprint(v)
		case "run-nolocation":
			// a script run for no location (the service's /api/sys/util/js, health checks)
			v, err := core.RunJavascript(nil, &bs, nil, c.Script.Code())
			o.err = drv.ErrStr(err)
			o.value = fmt.Sprint(v)
		default:
			fr, cond := loc.ProcessEvent(ctx, core.Map{"go": "b", "num": 41.0})
			if cond != nil {
				o.err = "cond: " + cond.Msg
			}
			for _, er := range fr.Children {
				for _, erc := range er.Children {
					if erc.Disposition != nil && erc.Disposition != core.Complete {
						o.err = "condition node: " + erc.Disposition.Msg
					}
					for _, era := range erc.Children {
						if era.Disposition != nil && era.Disposition != core.Complete {
							o.err = "action node: " + era.Disposition.Msg
						}
						o.value = fmt.Sprint(era.Value)
					}
				}
			}
			if strings.HasPrefix(c.Pos, "condition") && len(fr.Values) == 0 && o.err == "" {
				o.value = "<condition rejected>"
			}
		}
	}()
	wall := limit + grace
	select {
	case <-done:
		o.returned = true
		o.elapsed = time.Since(start)
	case <-time.After(wall):
		o.returned = false
		o.elapsed = time.Since(start)
	}
	select {
	case t := <-canaryAt:
		o.canaryLate = t.Sub(start) - limit
	default:
		o.canaryLate = -1
	}
	return o
}

// wrapCond turns a script into a condition whose value is the script's value.
func wrapCond(s script) string {
	return "function(){ " + s.Body + " return " + s.Expr + " }()"
}

// evalCond runs one event against a rule with the given condition and action; returns the
// values, the number of non-complete nodes and the failure ProcessEvent reported.
func evalCond(kind string, control *core.Control, cond interface{}, action map[string]interface{}, facts []core.Map) (string, int, string) {
	loc, err := drv.NewLoc("J", kind, drv.MustMem())
	if err != nil {
		return "", 0, "cannot build location"
	}
	if control != nil {
		loc.SetControl(control)
	}
	for i, f := range facts {
		loc.AddFact(drv.Ctx(), fmt.Sprintf("f%d", i), f)
	}
	rule := core.Map{"when": map[string]interface{}{"pattern": map[string]interface{}{"go": "?g"}}, "action": action}
	if cond != nil {
		rule["condition"] = cond
	}
	if _, err := loc.AddRule(drv.Ctx(), "jr", rule); err != nil {
		return "", 0, "AddRule: " + err.Error()
	}
	fr, c := loc.ProcessEvent(drv.Ctx(), core.Map{"go": "now"})
	failed := 0
	var vals []string
	if fr != nil {
		for _, v := range fr.Values {
			vals = append(vals, fmt.Sprint(v))
		}
		for _, er := range fr.Children {
			if er.Disposition != nil && er.Disposition != core.Complete {
				failed++
			}
			for _, erc := range er.Children {
				if erc.Disposition != nil && erc.Disposition != core.Complete {
					failed++
				}
				for _, era := range erc.Children {
					if era.Disposition != nil && era.Disposition != core.Complete {
						failed++
					}
				}
			}
		}
	}
	sort.Strings(vals)
	msg := ""
	if c != nil {
		msg = c.Msg
	}
	return strings.Join(vals, ","), failed, msg
}

// siblingScopes: a script sees exactly its bindings.  What one disjunct's script returns
// (an object whose properties become bindings of ITS results) is not a variable of a sibling
// disjunct, of a later evaluation of the same condition, or of the action run for another result.
func siblingScopes(r *rep.Report) {
	code := func(c string) map[string]interface{} { return map[string]interface{}{"code": c} }
	act := map[string]interface{}{"code": "(typeof extra == 'undefined') ? 'plain' : 'extra=' + extra"}
	type tc struct {
		name         string
		cond         interface{}
		wantVals     string
		wantFailures bool
	}
	cases := []tc{
		{"or: a later disjunct uses a variable that an earlier disjunct's script returned", map[string]interface{}{"or": []interface{}{code("({extra:1})"), code("extra == 1")}}, "", true},
		{"or: a later disjunct only probes for the variable", map[string]interface{}{"or": []interface{}{code("({extra:1})"), code("typeof extra == 'undefined'")}}, "extra=1,plain", false},
		{"or: two results, the action of the second must not see the first one's extra binding", map[string]interface{}{"or": []interface{}{code("({extra:7})"), code("true")}}, "extra=7,plain", false},
		{"and: a later conjunct does see what an earlier conjunct returned", map[string]interface{}{"and": []interface{}{code("({extra:2})"), code("extra == 2")}}, "extra=2", false},
		{"not: the negated script's bindings do not leak to the action", map[string]interface{}{"not": code("({extra:3}) && false")}, "plain", false},
	}
	for ci, c := range cases {
		for _, kind := range drv.Kinds {
			vals, failed, msg := evalCond(kind, nil, c.cond, act, nil)
			r.Case(true, fmt.Sprint("sibling-scopes", ci, kind))
			r.Count("sibling_scope_cases", 1)
			wit := rep.J{"case": c.name, "condition": c.cond, "state": kind, "values": vals, "non_complete_nodes": failed, "failure": msg, "want_values": c.wantVals, "want_failure": c.wantFailures}
			if c.wantFailures {
				if failed == 0 && msg == "" {
					r.Violate("", "a condition script that uses a variable it was not given (a sibling disjunct's returned binding) was reported as success", wit)
				} else if vals != "" {
					r.Violate("", "actions ran although the condition failed", wit)
				}
				continue
			}
			if msg != "" || failed > 0 {
				r.Violate("", "a finishing condition script failed: "+msg, wit)
			} else if vals != c.wantVals {
				r.Violate("", "a script did not see exactly its bindings (a returned binding of another result or disjunct is visible, or its own is missing)", wit)
			}
		}
	}
}

// libraryScripts: the same script text with different `libraries` is a different program.
// Missing library function => ReferenceError on the node; a library that does not compile =>
// error on the node; another library => its own value; in any order, in conditions, actions
// and RunJavascript.
// brokenLibraryAfterReload: a rule is stored while the library its condition names is fine; the
// location is loaded again (nothing parsed is cached then) with that library broken.  An event
// that reaches the rule reports the script that does not compile; it does not pass in silence.
func brokenLibraryAfterReload(r *rep.Report) {
	for _, kind := range drv.Kinds {
		for _, pos := range []string{"condition", "action"} {
			st := drv.MustMem()
			good := core.DefaultControl()
			good.Verbosity = core.NOTHING
			good.Libraries = map[string]string{"lib": "function scale(x) { return 2 * x; }"}
			loc, err := drv.NewLoc("K", kind, st)
			if err != nil {
				continue
			}
			loc.SetControl(good)
			rule := core.Map{"when": map[string]interface{}{"pattern": map[string]interface{}{"go": "now"}}}
			if pos == "condition" {
				rule["condition"] = map[string]interface{}{"code": "scale(21) > 0", "libraries": []interface{}{"lib"}}
				rule["action"] = map[string]interface{}{"code": "'acted'"}
			} else {
				rule["action"] = map[string]interface{}{"code": "scale(21)", "opts": map[string]interface{}{"libraries": []interface{}{"lib"}}}
			}
			if _, err := loc.AddRule(drv.Ctx(), "lr", rule); err != nil {
				r.Violate("", "AddRule with a library failed: "+err.Error(), nil)
				continue
			}
			fr1, cond1 := loc.ProcessEvent(drv.Ctx(), core.Map{"go": "now"})
			bad := core.DefaultControl()
			bad.Verbosity = core.NOTHING
			bad.Libraries = map[string]string{"lib": "function scale(x) { return ("}
			loc2, err := drv.NewLoc("K", kind, st)
			if err != nil {
				r.Violate("", "reload failed: "+err.Error(), nil)
				continue
			}
			loc2.SetControl(bad)
			fr2, cond2 := loc2.ProcessEvent(drv.Ctx(), core.Map{"go": "now"})
			r.Case(true, fmt.Sprint("broken-library-after-reload", kind, pos))
			r.Count("broken_library_after_reload_cases", 1)
			failed := cond2 != nil
			nodes := 0
			if fr2 != nil {
				if fr2.Disposition != nil && fr2.Disposition != core.Complete {
					failed = true
				}
				for _, er := range fr2.Children {
					nodes++
					for _, erc := range er.Children {
						if erc.Disposition != nil && erc.Disposition != core.Complete {
							failed = true
						}
						for _, era := range erc.Children {
							if era.Disposition != nil && era.Disposition != core.Complete {
								failed = true
							}
						}
					}
				}
			}
			wit := rep.J{"state": kind, "library_used_by": pos, "first_life_values": fmt.Sprint(fr1.Values), "first_life_condition": cond1, "second_life_values": fmt.Sprint(fr2.Values), "second_life_condition": cond2, "second_life_rule_nodes": nodes}
			if cond1 != nil || len(fr1.Values) != 1 {
				r.Violate("", "a rule with a library did not run while the library was fine", wit)
			} else if !failed {
				r.Violate("", "an event reached a rule whose script no longer compiles (its library is broken since the reload) and reported no error anywhere", wit)
			}
		}
	}
}

func libraryScripts(r *rep.Report) {
	ctl := core.DefaultControl()
	ctl.Verbosity = core.NOTHING
	ctl.Libraries = map[string]string{"twice": "function scale(x) { return 2 * x; }", "thrice": "function scale(x) { return 3 * x; }", "broken": "function scale(x) { return ("}
	type variant struct {
		libs []interface{}
		want string // "" = must fail
	}
	variants := []variant{{[]interface{}{"twice"}, "42"}, {nil, ""}, {[]interface{}{"thrice"}, "63"}, {[]interface{}{"broken"}, ""}, {[]interface{}{"twice"}, "42"}, {nil, ""}}
	for order := 0; order < 3; order++ {
		vs := append([]variant{}, variants...)
		if order == 1 {
			for i, j := 0, len(vs)-1; i < j; i, j = i+1, j-1 {
				vs[i], vs[j] = vs[j], vs[i]
			}
		} else if order == 2 {
			vs = append(vs[3:], vs[:3]...)
		}
		for _, kind := range drv.Kinds {
			for _, pos := range []string{"action", "condition", "run"} {
				for vi, v := range vs {
					r.Case(true, fmt.Sprint("libraries", order, kind, pos, vi))
					r.Count("library_script_cases", 1)
					var got, failure string
					failedNodes := 0
					switch pos {
					case "action":
						a := map[string]interface{}{"code": "scale(21)"}
						if v.libs != nil {
							a["opts"] = map[string]interface{}{"libraries": v.libs}
						}
						got, failedNodes, failure = evalCond(kind, ctl, nil, a, nil)
					case "condition":
						cq := map[string]interface{}{"code": "scale(21) > 0"}
						if v.libs != nil {
							cq["libraries"] = v.libs
						}
						got, failedNodes, failure = evalCond(kind, ctl, cq, map[string]interface{}{"code": "'acted'"}, nil)
					default:
						loc, _ := drv.NewLoc("J", kind, drv.MustMem())
						loc.SetControl(ctl)
						var libs []string
						for _, l := range v.libs {
							libs = append(libs, l.(string))
						}
						x, err := loc.RunJavascript(drv.Ctx(), "scale(21)", libs, nil, nil)
						if err != nil {
							failure = err.Error()
						} else {
							got = fmt.Sprint(x)
						}
					}
					wit := rep.J{"position": pos, "state": kind, "script": "scale(21)", "libraries": v.libs, "order": order, "step": vi, "value": got, "non_complete_nodes": failedNodes, "failure": failure}
					want := v.want
					if pos == "condition" && want != "" {
						want = "acted"
					}
					if v.want == "" {
						if failure == "" && failedNodes == 0 {
							r.Violate("", "a script that calls a function of a library it was not given (or whose library does not compile) was reported as success", wit)
						}
						continue
					}
					if failure != "" || failedNodes > 0 {
						r.Violate("", "a script that finishes within the limit failed: "+failure, wit)
					} else if got != want {
						r.Violate("", fmt.Sprintf("a finishing script produced %q, expected %q", got, want), wit)
					}
				}
			}
		}
	}
}

// encodedScripts: an action's `opts.encoding` says how its code is written down ("base64", or
// "none" / "" for plain text).  It is the same script either way: same value, same failure.
func encodedScripts(r *rep.Report) {
	type sc struct{ code, want string }
	for _, c := range []sc{{"20 + 22", "42"}, {"throw 'boom'", ""}, {"undefinedFn()", ""}, {"'a' + 'b'", "ab"}} {
		for _, enc := range []string{"none", "", "base64"} {
			for _, kind := range drv.Kinds {
				code := c.code
				if enc == "base64" {
					code = base64.StdEncoding.EncodeToString([]byte(c.code))
				}
				act := map[string]interface{}{"code": code, "opts": map[string]interface{}{"encoding": enc}}
				got, failed, failure := evalCond(kind, nil, nil, act, nil)
				r.Case(true, fmt.Sprint("encoded", c.code, enc, kind))
				r.Count("encoded_script_cases", 1)
				wit := rep.J{"script": c.code, "encoding": enc, "state": kind, "value": got, "non_complete_nodes": failed, "failure": failure}
				if c.want == "" {
					if failed == 0 && failure == "" {
						r.Violate("", "a throwing script (written with an encoding option) was reported as success", wit)
					}
					continue
				}
				if failed > 0 || failure != "" {
					r.Violate("", "a script that finishes within the limit failed: "+failure, wit)
				} else if got != c.want {
					r.Violate("", fmt.Sprintf("a finishing script produced %q, expected %q", got, c.want), wit)
				}
			}
		}
	}
}

// spin: loops without a statement in their body.  The interpreter looks for the watchdog's
// interrupt between statements, and these have none (listed finding c14.empty-loop-not-interrupted).
// Each case that is not stopped leaves a spinning goroutine behind, so they have this child of
// their own and are few.
func spin(r *rep.Report) {
	core.SystemParameters.DefaultJavascriptTimeout = defaultLimit
	for _, body := range []string{"for(;;){} ", "x: for(;;){} ", "for (var i = 0;;) {} "} {
		for _, pos := range []string{"run", "action"} {
			c := tcase{Script: script{"nonterminating", body, "1", ""}, Setting: "control", Pos: pos, State: drv.Kinds[0], LimitMs: 100}
			r.Journal(c)
			o := runFor(c, 4*time.Second)
			r.Case(true, fmt.Sprint("spin", c))
			r.Count("empty_body_loops", 1)
			wit := rep.J{"case": c, "returned": o.returned, "elapsed_ms": o.elapsed.Milliseconds(), "error": o.err, "value": o.value, "canary_late_ms": o.canaryLate.Milliseconds()}
			switch {
			case !o.returned && o.canaryLate >= 0 && o.canaryLate < time.Second:
				r.Violate("c14.empty-loop-not-interrupted", "a loop without a statement in its body was not stopped 4 s after its 100 ms limit (the canary armed for the limit fired on time)", wit)
			case !o.returned:
				r.Inconclusive("canary late")
			case o.err == "":
				r.Violate("", "a script that ran past the timeout was reported as success", wit)
			}
		}
	}
}

// negativeLocationTimeout: with timeouts on and a system default of 400 ms, a location whose control
// carries a negative JavascriptTimeout has no limit: a script that computes for about 900 ms and then
// finishes is unaffected (directly, as condition and as action).  No wall-clock verdict: whatever the
// load, no time-out may be reported in such a location.
func negativeLocationTimeout(r *rep.Report) {
	core.SystemParameters.DefaultJavascriptTimeout = defaultLimit
	busy := script{"value", "var t0 = new Date().getTime(); var k = 0; while (new Date().getTime() - t0 < 900) { k++; } ", "'computed'", "computed"}
	for _, kind := range drv.Kinds {
		for _, pos := range []string{"run", "condition", "action"} {
			c := tcase{Script: busy, Setting: "control-negative", Pos: pos, State: kind, LimitMs: -1}
			r.Journal(c)
			o := runFor(c, 30*time.Second)
			r.Case(true, fmt.Sprint("negative-location-timeout", c))
			r.Count("scripts_in_locations_without_a_limit", 1)
			wit := rep.J{"case": c, "returned": o.returned, "elapsed_ms": o.elapsed.Milliseconds(), "error": o.err, "value": o.value, "system_default_ms": defaultLimit.Milliseconds()}
			want := busy.Want
			if pos == "condition" {
				want = "acted"
			}
			switch {
			case !o.returned:
				r.Inconclusive("a 900 ms script did not return within 30 s")
			case o.err != "":
				r.Violate("", "a finishing script in a location whose control sets a negative JavascriptTimeout (no limit) failed: "+o.err, wit)
			case o.value != want:
				r.Violate("", fmt.Sprintf("a finishing script in a location without a limit produced %q, expected %q", o.value, want), wit)
			}
		}
	}
}

func main() {
	e := rep.GetEnv()
	r := rep.New(e)
	if os.Getenv("C14_SPIN") == "1" {
		spin(r)
		r.Write()
		os.Exit(0)
	}
	encodedScripts(r)
	siblingScopes(r)
	libraryScripts(r)
	brokenLibraryAfterReload(r)
	g := gen.New(e.BatchSeed())
	disabled := os.Getenv("C14_TIMEOUTS") == "off"
	if disabled {
		core.SystemParameters.JavascriptTimeouts = false
	}
	core.SystemParameters.DefaultJavascriptTimeout = defaultLimit
	if !disabled && e.Batch == 0 {
		negativeLocationTimeout(r)
	}
	reps := e.Pick(2, 6)
	hung := 0
	for rp := 0; rp < reps && hung == 0; rp++ {
		for _, sc := range scripts {
			if disabled && (sc.Family == "nonterminating" || sc.Family == "oversleep") {
				continue
			}
			for _, pos := range []string{"run", "run-nolocation", "condition", "action", "condition-or", "condition-and", "condition-not"} {
				if strings.HasPrefix(pos, "condition") && sc.Family == "invalid" {
					continue // an invalid condition is wrapped and would change the program; invalid is covered by run/action
				}
				if strings.HasPrefix(pos, "condition-") && (sc.Family == "value" || sc.Family == "slow" || sc.Family == "oversleep") {
					continue // the composite conditions are there for the failing families
				}
				settings := []string{"control", "default"}
				if disabled {
					settings = []string{"disabled"}
				}
				for _, setting := range settings {
					if pos == "run-nolocation" && setting == "control" {
						continue // without a location there is no location control: the system default applies
					}
					c := tcase{Script: sc, Setting: setting, Pos: pos, State: drv.Kinds[g.Intn(2)], LimitMs: 50 + g.Intn(6)*50}
					if setting != "control" {
						c.LimitMs = int(defaultLimit / time.Millisecond)
					}
					if sc.Family == "slow" && c.LimitMs < 150 {
						c.LimitMs = 150
					}
					r.Journal(c)
					o := run(c)
					nontrivial := sc.Family != "value" || setting != "disabled"
					r.Case(nontrivial, fmt.Sprint(c))
					wit := rep.J{"case": c, "returned": o.returned, "elapsed_ms": o.elapsed.Milliseconds(), "error": o.err, "value": o.value, "canary_late_ms": o.canaryLate.Milliseconds()}
					limit := time.Duration(c.LimitMs) * time.Millisecond
					if !o.returned {
						if o.canaryLate >= 0 && o.canaryLate < 2*time.Second {
							r.Violate("", fmt.Sprintf("the call did not return %v after its %v limit (the canary timer armed for the same instant fired on time)", o.elapsed-limit, limit), wit)
							hung++
						} else {
							r.Inconclusive("canary late")
						}
						if hung > 0 {
							break
						}
						continue
					}
					switch sc.Family {
					case "oversleep":
						// the script is past its limit while it sleeps: it must be stopped (not waited
						// for) and reported as failed.  Listed finding: a call into Go is never interrupted.
						r.Count("oversleeping_scripts", 1)
						if o.err == "" {
							r.Violate("c14.native-call-not-interrupted", "a script that was past its limit inside Env.sleep was reported as success", wit)
						} else if o.elapsed > limit+450*time.Millisecond && o.canaryLate < 200*time.Millisecond {
							r.Violate("c14.native-call-not-interrupted", "a script past its limit inside Env.sleep was stopped only when the sleep was over", wit)
						}
					case "nonterminating":
						if o.err == "" {
							r.Violate("", "a script that ran past the timeout was reported as success", wit)
						}
						if o.elapsed < limit-5*time.Millisecond {
							r.Violate("", "a script was stopped before the configured limit", wit)
						}
						r.Count("timeouts_observed", 1)
					case "throws", "invalid":
						if o.err == "" {
							r.Violate("", "a throwing / invalid script was reported as success", wit)
						}
					default:
						if strings.Contains(o.err, "timed out") && o.elapsed >= limit {
							// On this run the call did take longer than its limit (a loaded machine:
							// see canary_late_ms), so the script was not one "that finishes within the
							// limit" and stopping it is what the property asks for.  A time-out
							// reported BEFORE the limit has passed stays a violation.
							r.Count("value_scripts_past_their_limit_on_this_run", 1)
							r.Inconclusive("value script slower than its limit on this run")
						} else if o.err != "" {
							r.Violate("", "a script that finishes within the limit failed: "+o.err, wit)
						} else {
							want := sc.Want
							if strings.HasPrefix(pos, "condition") {
								want = "acted" // the condition's value is truthy/non-null, the action runs
							}
							if o.value != want {
								r.Violate("", fmt.Sprintf("a finishing script produced %q, expected %q", o.value, want), wit)
							} else if r.WantSample() {
								r.Sample(wit)
							}
						}
					}
				}
				if hung > 0 {
					break
				}
			}
			if hung > 0 {
				break
			}
		}
	}
	r.Write()
	fmt.Fprintf(os.Stderr, "c14 batch %d: %d evaluations\n", e.Batch, r.Evaluations)
	os.Exit(0)
}
