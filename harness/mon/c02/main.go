// Monitor for C02: fact search returns exactly the stored facts that match.
// Differential oracle over generated histories of AddFact/RemFact/GetFact/
// SearchFacts, indexed and linear state driven in lock-step against one
// reference model (ref.Loc + ref.Match).
package main

import (
	"math"
	"encoding/json"
	"fmt"
	"os"
	"runtime"
	"sort"
	"strings"
	"sync"

	"github.com/Comcast/rulio/core"

	"verif/lib/drv"
	"verif/lib/gen"
	"verif/lib/ref"
	"verif/lib/rep"
)

type op struct {
	Op      string                 `json:"op"`
	Id      string                 `json:"id,omitempty"`
	Fact    map[string]interface{} `json:"fact,omitempty"`
	Pattern map[string]interface{} `json:"pattern,omitempty"`
	Res     map[string]interface{} `json:"res,omitempty"`
	// ViaJS: the fact is written by a script (Env.AddFact), as a rule action would write it
	ViaJS bool `json:"via_js,omitempty"`
}

// hasIndexableTerm mirrors the documented indexing rule (strings that are not
// variables and shorter than 1024, keys always, no values under `rule` or
// under keys ending in '!'): a pattern without any such term cannot be looked
// up in the term index.
func hasIndexableTerm(x interface{}) bool {
	switch v := x.(type) {
	case string:
		return !ref.IsVar(v) && len(v) < 1024
	case map[string]interface{}:
		for k, e := range v {
			if hasIndexableTerm(k) {
				return true
			}
			if k == "rule" || strings.HasSuffix(k, "!") {
				continue
			}
			if hasIndexableTerm(e) {
				return true
			}
		}
	case []interface{}:
		for _, e := range v {
			if hasIndexableTerm(e) {
				return true
			}
		}
	}
	return false
}

func genFact(g *gen.Gen) map[string]interface{} {
	f := g.Map(1 + g.Intn(2))
	if g.Intn(30) == 0 {
		return map[string]interface{}{} // a fact without any content (a marker): nothing to index, still a fact
	}
	switch g.Intn(14) {
	case 0:
		f["k!"] = g.Scalar()
	case 1:
		f["rule"] = g.Pick([]string{"text", "s1"})
	case 2:
		f["deleteWith"] = []interface{}{g.Pick([]string{"f1", "f2", "f9"})}
	case 3: // property fact
		f = map[string]interface{}{"!" + g.Pick([]string{"p", "q"}): g.Scalar(), "id": g.Pick([]string{"f1", "f2", "zz"})}
		if g.Intn(2) == 0 {
			f["a"] = g.Scalar()
		}
	}
	return f
}

func main() {
	e := rep.GetEnv()
	r := rep.New(e)
	nHist := e.Pick(1000, 8000)
	ids := []string{"f1", "f2", "f3", "f4", "f5"}
	genIds := map[string]bool{}

	directed(r)
	expiringFacts(r, e)

	for h := 0; h < nHist; h++ {
		g := gen.New(e.BatchSeed()*104729 + int64(h))
		g.Lookalikes = h%2 == 1
		g.LongStrings = true
		g.Escapes = h%3 == 2 // strings with characters that JSON text escapes (quotes, backslash, <, &, control characters)
		locs := map[string]*core.Location{}
		for _, k := range drv.Kinds {
			l, err := drv.NewLoc("L", k, drv.MustMem())
			if err != nil {
				r.Violate("", "cannot build location: "+err.Error(), nil)
				return
			}
			locs[k] = l
		}
		m := ref.NewLoc("L")
		var former []map[string]interface{}
		var run []op
		written := map[string]bool{}
		steps := 12 + g.Intn(20)
		for s := 0; s < steps; s++ {
			o := op{}
			switch k := g.Intn(20); {
			case k < 7:
				o.Op = "add"
				o.Id = ids[g.Intn(len(ids))]
				if g.Intn(6) == 0 {
					o.Id = ""
				}
				o.Fact = genFact(g)
				o.ViaJS = g.Intn(5) == 0 // (without an id the script leaves the first argument out: undefined or null)
			case k == 7 && g.Intn(3) == 0:
				// an overwrite that indexed state refuses (a rule whose `when` holds an
				// unsortable array): what is stored and searchable must not change
				o.Op = "refusedOverwrite"
				o.Id = ids[g.Intn(len(ids))]
			case k < 10:
				o.Op = "rem"
				o.Id = ids[g.Intn(len(ids))]
				if g.Intn(6) == 0 && len(m.Items) > 0 {
					o.Id = m.Ids()[g.Intn(len(m.Items))]
				}
			case k < 13:
				o.Op = "get"
				o.Id = ids[g.Intn(len(ids))]
				if g.Intn(4) == 0 && len(m.Items) > 0 {
					o.Id = m.Ids()[g.Intn(len(m.Items))]
				}
			default:
				o.Op = "search"
				var src map[string]interface{}
				if len(former) > 0 && g.Intn(6) > 0 {
					src = former[g.Intn(len(former))]
				} else {
					src = g.Map(1)
				}
				o.Pattern = g.PatternMapFrom(src)
				if g.Intn(25) == 0 {
					o.Pattern = map[string]interface{}{"?k": g.Pick([]string{"?v", "s1"})}
				}
				if g.Intn(40) == 0 {
					o.Pattern = map[string]interface{}{}
				}
				o.ViaJS = g.Intn(5) == 0
			}
			if o.Fact != nil && (!gen.InFragmentLoose(o.Fact) || gen.HasVarString(o.Fact)) {
				s--
				continue
			}
			if o.Pattern != nil && !gen.InFragment(o.Pattern) {
				s--
				continue
			}
			if o.Fact != nil {
				former = append(former, o.Fact)
			}
			r.Journal(rep.J{"hist": h, "step": s, "op": o})
			step(r, locs, m, &run, o, written, genIds)
		}
	}
	r.Note("generated_ids_checked_unique", len(genIds))
	if e.Thorough() && e.Batch == 0 {
		uniqueIds(r)
	}
	if e.Batch == 0 {
		uniqueIdsConcurrent(r)
	}
	r.Write()
	fmt.Fprintf(os.Stderr, "c02 batch %d: %d evaluations\n", e.Batch, r.Evaluations)
}

// uniqueIds adds 120 000 facts without ids and checks the generated ids are
// non-empty and pairwise distinct.
func uniqueIds(r *rep.Report) {
	l, err := drv.NewLoc("U", "linear", drv.MustMem())
	if err != nil {
		return
	}
	c := core.DefaultControl()
	c.MaxFacts = 1 << 30
	l.SetControl(c)
	seen := map[string]bool{}
	for i := 0; i < 120000; i++ {
		id, err := l.AddFact(drv.Ctx(), "", core.Map{"n": float64(i)})
		if err != nil {
			r.Violate("", "AddFact without id failed: "+err.Error(), nil)
			return
		}
		if id == "" || seen[id] {
			r.Violate("", "generated id empty or reused: "+id, rep.J{"n": i})
			return
		}
		seen[id] = true
		// remove it again at once: linear state scans every fact on each removal
		l.RemFact(drv.Ctx(), id)
	}
	r.Count("bulk_generated_ids_distinct", len(seen))
}

// uniqueIdsConcurrent: requests to different locations run in parallel; the ids
// generated for them must be distinct across the whole engine (an id-less add that
// gets an id already handed out overwrites somebody's fact within a location).
func uniqueIdsConcurrent(r *rep.Report) {
	const nloc, per = 8, 3000
	// the child runs with GOMAXPROCS=1 (8 batches share the machine); this part needs real parallelism
	defer runtime.GOMAXPROCS(runtime.GOMAXPROCS(8))
	ids := make([][]string, nloc)
	var wg sync.WaitGroup
	gate := make(chan bool)
	for li := 0; li < nloc; li++ {
		l, err := drv.NewLoc(fmt.Sprintf("U%d", li), drv.Kinds[li%2], drv.MustMem())
		if err != nil {
			return
		}
		c := core.DefaultControl()
		c.MaxFacts = 1 << 30
		l.SetControl(c)
		wg.Add(1)
		go func(li int, l *core.Location) {
			defer wg.Done()
			<-gate
			for i := 0; i < per; i++ {
				id, err := l.AddFact(drv.Ctx(), "", core.Map{"n": float64(i)})
				if err != nil {
					id = "ERR:" + err.Error()
				}
				ids[li] = append(ids[li], id)
				l.RemFact(drv.Ctx(), id)
			}
		}(li, l)
	}
	close(gate)
	wg.Wait()
	seen := map[string]int{}
	for li := range ids {
		for _, id := range ids[li] {
			seen[id]++
		}
	}
	dups := 0
	example := ""
	for id, n := range seen {
		if n > 1 || id == "" || strings.HasPrefix(id, "ERR:") {
			dups++
			example = id
		}
	}
	r.Case(true, "unique-ids-concurrent")
	r.Count("concurrently_generated_ids", nloc*per)
	if dups > 0 {
		r.Violate("", "ids generated for concurrent id-less adds (one goroutine per location) are not unique", rep.J{"locations": nloc, "adds_per_location": per, "ids_handed_out_more_than_once_or_invalid": dups, "example": example})
	}
}

func step(r *rep.Report, locs map[string]*core.Location, m *ref.Loc, run *[]op, o op, written map[string]bool, genIds map[string]bool) {
	wit := func(extra rep.J) rep.J {
		w := rep.J{"history": append(append([]op{}, *run...), o)}
		for k, v := range extra {
			w[k] = v
		}
		return w
	}
	switch o.Op {
	case "add":
		wantId, _, perr := ref.CanonicalId(o.Id, o.Fact)
		res := map[string]string{}
		errs := map[string]string{}
		for _, k := range drv.Kinds {
			var id string
			var err error
			if o.ViaJS {
				fj, _ := json.Marshal(o.Fact)
				idj, _ := json.Marshal(o.Id)
				if o.Id == "" {
					idj = []byte([]string{"undefined", "null"}[len(*run)%2])
				}
				var x interface{}
				x, err = locs[k].RunJavascript(drv.Ctx(), "Env.AddFact("+string(idj)+", "+string(fj)+")", nil, nil, nil)
				id = fmt.Sprint(x)
				r.Count("facts_written_by_a_script", 1)
			} else {
				id, err = locs[k].AddFact(drv.Ctx(), o.Id, core.Map(ref.CloneMap(o.Fact)))
			}
			res[k], errs[k] = id, drv.ErrStr(err)
		}
		r.Case(written[wantId], "add"+ref.Canon(wit(nil)))
		if (errs["indexed"] == "") != (errs["linear"] == "") {
			r.Violate("", "AddFact acknowledged by one state implementation and refused by the other", wit(rep.J{"errors": errs}))
			*run = append(*run, o)
			return
		}
		if errs["indexed"] != "" {
			if perr == nil {
				r.Violate("", "AddFact of an in-fragment fact failed: "+errs["indexed"], wit(nil))
			}
			*run = append(*run, o)
			return
		}
		if o.Id == "" && wantId == "" {
			// generated ids: each state generates its own; they must be fresh.
			for _, k := range drv.Kinds {
				if res[k] == "" || genIds[res[k]] || m.Items[res[k]] != nil {
					r.Violate("", "generated id is empty or not fresh: "+res[k], wit(nil))
				}
				genIds[res[k]] = true
			}
			// keep the model single: re-add under one known id in both states.
			for _, k := range drv.Kinds {
				locs[k].RemFact(drv.Ctx(), res[k])
			}
			o.Res = map[string]interface{}{"generated": res}
			*run = append(*run, o)
			return
		}
		for _, k := range drv.Kinds {
			if res[k] != wantId {
				r.Violate("", fmt.Sprintf("AddFact returned id %q, expected %q (%s)", res[k], wantId, k), wit(nil))
			}
		}
		m.Put(wantId, o.Fact)
		written[wantId] = true
	case "refusedOverwrite":
		r.Case(written[o.Id], "refused"+ref.Canon(wit(nil)))
		r.Count("refused_overwrites", 1)
		rule := core.Map{"when": map[string]interface{}{"pattern": map[string]interface{}{"q": []interface{}{"x", 1.0}}}, "action": map[string]interface{}{"code": "1"}}
		if _, err := locs["indexed"].AddRule(drv.Ctx(), o.Id, rule); err == nil {
			// accepted after all: mirror it so that the lock-step model stays valid
			locs["linear"].AddRule(drv.Ctx(), o.Id, core.Map(ref.CloneMap(map[string]interface{}(rule))))
			m.Put(o.Id, map[string]interface{}{"rule": ref.Clone(map[string]interface{}(rule))})
			written[o.Id] = true
		}
	case "rem":
		r.Case(written[o.Id], "rem"+ref.Canon(wit(nil)))
		for _, k := range drv.Kinds {
			if _, err := locs[k].RemFact(drv.Ctx(), o.Id); err != nil {
				r.Violate("", "RemFact failed: "+err.Error(), wit(rep.J{"state": k}))
			}
		}
		m.Rem(o.Id)
	case "get":
		want, have := m.Items[o.Id]
		r.Case(written[o.Id], "get"+ref.Canon(wit(nil)))
		for _, k := range drv.Kinds {
			f, err := locs[k].GetFact(drv.Ctx(), o.Id)
			if !have {
				if _, nf := err.(*core.NotFoundError); !nf {
					r.Violate("", fmt.Sprintf("GetFact of an absent id returned (%v, %v) instead of not-found", f, err), wit(rep.J{"state": k}))
				}
				continue
			}
			if err != nil {
				r.Violate("", "GetFact of a stored id failed: "+err.Error(), wit(rep.J{"state": k}))
				continue
			}
			if ref.Canon(map[string]interface{}(f)) != ref.Canon(want) {
				r.Violate("", "GetFact does not return the value last written", wit(rep.J{"state": k, "got": ref.Clone(map[string]interface{}(f)), "want": want}))
			}
		}
	case "search":
		want := m.Search(o.Pattern)
		r.Case(len(want) > 0, "search"+ref.Canon(wit(nil)))
		if len(want) > 0 {
			r.Count("searches_nonempty", 1)
		}
		got := map[string][]string{}
		for _, k := range drv.Kinds {
			srs, err := locs[k].SearchFacts(drv.Ctx(), core.Map(ref.CloneMap(o.Pattern)), false)
			if err != nil {
				if k == "indexed" && strings.Contains(err.Error(), "No terms given") && !hasIndexableTerm(o.Pattern) {
					r.Violate("c02.zero-term-pattern", "indexed state refuses a pattern without indexable terms while linear state scans", wit(nil))
					continue
				}
				r.Violate("", "SearchFacts failed: "+err.Error(), wit(rep.J{"state": k}))
				continue
			}
			got[k] = drv.NormSearch(srs)
			if !ref.SameSet(got[k], want) {
				if ref.HasRepeatedVar(o.Pattern, nil) && ref.Subset(want, got[k]) {
					loose := []string{}
					for id, it := range m.Items {
						for _, c := range ref.CanonSet(ref.MatchLoose(o.Pattern, it, ref.B{})) {
							loose = append(loose, id+"|"+c)
						}
					}
					if ref.Subset(got[k], loose) {
						r.Violate("c02.repeated-var-structured", "search differs only by the sheens repeated-variable reading (see C05)", wit(rep.J{"state": k}))
						continue
					}
				}
				if k == "indexed" && ref.Subset(got[k], want) && onlyPropVarUnindexed(o.Pattern, want, got[k]) {
					r.Violate("c02.propvar-unindexed-value", "indexed state misses a fact matched through a property variable bound to a key whose value is not indexed (`rule`, or a key ending in '!')", wit(rep.J{"state": k, "got": got[k], "want": want}))
					continue
				}
				if k == "indexed" && ref.Subset(got[k], want) && ref.HasOptionalVar(o.Pattern) {
					r.Violate("c02.optional-variable", "indexed state misses a fact that matches because the key of an optional variable (\"??y\") is absent: the key is a required index term", wit(rep.J{"state": k, "got": got[k], "want": want}))
					continue
				}
				what := "SearchFacts disagrees with brute-force matching over the stored facts"
				if !ref.Subset(want, got[k]) {
					what += " (a matching fact is missing)"
				}
				if !ref.Subset(got[k], want) {
					what += " (a result does not match or is not stored)"
				}
				r.Violate("", what, wit(rep.J{"state": k, "got": got[k], "want": want}))
				continue
			}
			if o.ViaJS && !ref.HasRepeatedVar(o.Pattern, nil) {
				// the same search issued by a script finds the same facts (patterns with a repeated variable
				// are left out: over structured values their answer varies from call to call, see the
				// listed finding c05.repeated-var-structured)
				pj, _ := json.Marshal(o.Pattern)
				x, jerr := locs[k].RunJavascript(drv.Ctx(), "var fs = Env.Search("+string(pj)+").Found; var ids = []; for (var i = 0; i < fs.length; i++) { ids.push(fs[i].Id); }; ids.sort(); JSON.stringify(ids)", nil, nil, nil)
				r.Count("searches_issued_by_a_script", 1)
				seen := map[string]bool{}
				wantIds := []string{}
				for _, w := range want {
					if id := strings.SplitN(w, "|", 2)[0]; !seen[id] {
						seen[id] = true
						wantIds = append(wantIds, id)
					}
				}
				sort.Strings(wantIds)
				wj, _ := json.Marshal(wantIds)
				if jerr != nil || fmt.Sprint(x) != string(wj) {
					r.Violate("", "a search issued by a script (Env.Search) does not find what the same search finds when issued directly", wit(rep.J{"state": k, "script_result": fmt.Sprint(x), "script_error": drv.ErrStr(jerr), "want_ids": wantIds}))
				}
			}
		}
		if len(want) > 0 && r.WantSample() {
			r.Sample(rep.J{"history_len": len(*run), "pattern": o.Pattern, "result": want})
		}
	}
	*run = append(*run, o)
}

// onlyPropVarUnindexed: every missing (id|bindings) entry binds a property
// variable of the pattern to the key `rule` or to a key ending in '!'.
func onlyPropVarUnindexed(pattern map[string]interface{}, want, got []string) bool {
	pv := []string{}
	var walk func(x interface{})
	walk = func(x interface{}) {
		switch v := x.(type) {
		case map[string]interface{}:
			for k, e := range v {
				if ref.IsVar(k) {
					pv = append(pv, k)
				}
				walk(e)
			}
		case []interface{}:
			for _, e := range v {
				walk(e)
			}
		}
	}
	walk(pattern)
	if len(pv) == 0 {
		return false
	}
	have := map[string]bool{}
	for _, g := range got {
		have[g] = true
	}
	missing := 0
	for _, w := range want {
		if have[w] {
			continue
		}
		missing++
		i := strings.Index(w, "|")
		var b map[string]interface{}
		if json.Unmarshal([]byte(w[i+1:]), &b) != nil {
			return false
		}
		ok := false
		for _, v := range pv {
			if ks, isS := b[v].(string); isS && (ks == "rule" || strings.HasSuffix(ks, "!")) {
				ok = true
			}
		}
		if !ok {
			return false
		}
	}
	return missing > 0
}

// expiringFacts: a fact written with ttl (or expires) is stored with an absolute `expires` and without
// `ttl`; patterns that name `expires` (or `ttl`) find exactly those facts, in both states, before and
// after a reload.
func expiringFacts(r *rep.Report, e rep.Env) {
	n := e.Pick(30, 200)
	for i := 0; i < n; i++ {
		g := gen.New(e.BatchSeed()*1299709 + int64(i))
		type w struct {
			Id   string                 `json:"id"`
			Fact map[string]interface{} `json:"fact"`
		}
		var hist []w
		likes := map[string]string{}
		exp := map[string]bool{}
		for s, steps := 0, 4+g.Intn(8); s < steps; s++ {
			id := []string{"a", "b", "c", "d", "e"}[g.Intn(5)]
			f := map[string]interface{}{"likes": []string{"tacos", "chips", "queso"}[g.Intn(3)]}
			switch g.Intn(4) {
			case 0:
				f["ttl"] = "1h"
			case 1:
				f["ttl"] = 3600.0
			case 2:
				f["expires"] = 4102444800.0
			}
			hist = append(hist, w{id, f})
			likes[id] = f["likes"].(string)
			_, t := f["ttl"]
			_, x := f["expires"]
			exp[id] = t || x
		}
		type q struct {
			p    map[string]interface{}
			want []string
		}
		var qs []q
		all := []string{}
		for id := range exp {
			if exp[id] {
				all = append(all, id)
			}
		}
		qs = append(qs, q{map[string]interface{}{"expires": "?when"}, all}, q{map[string]interface{}{"ttl": "?t"}, []string{}})
		for _, l := range []string{"tacos", "chips", "queso"} {
			some := []string{}
			for _, id := range all {
				if likes[id] == l {
					some = append(some, id)
				}
			}
			qs = append(qs, q{map[string]interface{}{"expires": "?when", "likes": l}, some})
		}
		for _, kind := range drv.Kinds {
			store := drv.MustMem()
			loc, err := drv.NewLoc("E", kind, store)
			if err != nil {
				continue
			}
			ok := true
			for _, h := range hist {
				if _, err := loc.AddFact(drv.Ctx(), h.Id, core.Map(ref.CloneMap(h.Fact))); err != nil {
					r.Violate("", "AddFact failed: "+err.Error(), rep.J{"state": kind, "history": hist})
					ok = false
					break
				}
			}
			if !ok {
				continue
			}
			for phase := 0; phase < 2; phase++ {
				if phase == 1 {
					if loc, err = drv.NewLoc("E", kind, store); err != nil {
						r.Violate("", "reload failed: "+err.Error(), rep.J{"state": kind, "history": hist})
						break
					}
				}
				for _, qu := range qs {
					srs, err := loc.SearchFacts(drv.Ctx(), core.Map(ref.CloneMap(qu.p)), false)
					got := []string{}
					if err == nil {
						for _, f := range srs.Found {
							got = append(got, f.Id)
						}
					}
					sort.Strings(got)
					sort.Strings(qu.want)
					r.Case(len(qu.want) > 0, fmt.Sprint("expiring", kind, i, phase, ref.Canon(qu.p)))
					r.Count("expires_pattern_searches", 1)
					if err != nil || !ref.SameSet(got, qu.want) {
						r.Violate("", "a search naming `expires` (or `ttl`) does not return exactly the stored facts that carry it", rep.J{"state": kind, "history": hist, "reloaded": phase == 1, "pattern": qu.p, "got_ids": got, "want_ids": qu.want, "error": drv.ErrStr(err)})
					}
				}
			}
		}
	}
}

func directed(r *rep.Report) {
	locs := map[string]*core.Location{}
	for _, k := range drv.Kinds {
		l, _ := drv.NewLoc("D", k, drv.MustMem())
		locs[k] = l
	}
	m := ref.NewLoc("D")
	var run []op
	written := map[string]bool{}
	gi := map[string]bool{}
	for _, o := range []op{
		{Op: "add", Id: "f1", Fact: map[string]interface{}{"a": 1.0, "b": true}},
		{Op: "add", Id: "f2", Fact: map[string]interface{}{"a": "s1", "k!": "v"}},
		{Op: "search", Pattern: map[string]interface{}{}},
		{Op: "search", Pattern: map[string]interface{}{"?k": "?v"}},
		{Op: "search", Pattern: map[string]interface{}{"?k": 1.0}},
		{Op: "search", Pattern: map[string]interface{}{"a": 1.0}},
		{Op: "search", Pattern: map[string]interface{}{"k!": "v"}},
		{Op: "add", Id: "f3", Fact: map[string]interface{}{"rule": "s1"}},
		{Op: "search", Pattern: map[string]interface{}{"?k": "s1"}},
		{Op: "add", Id: "f1", Fact: map[string]interface{}{"c": "x"}},
		{Op: "search", Pattern: map[string]interface{}{"a": "?x"}},
		{Op: "get", Id: "f1"},
		// the matcher's optional variable: the key may be absent
		{Op: "search", Pattern: map[string]interface{}{"a": "s1", "b": "??y"}},
		{Op: "add", Id: "f4", Fact: map[string]interface{}{"a": "s1", "b": "here"}},
		{Op: "search", Pattern: map[string]interface{}{"a": "s1", "b": "??y"}},
		// JSON -0 decodes to a negative zero, which equals 0 for the matcher
		{Op: "add", Id: "f5", Fact: map[string]interface{}{"z": math.Copysign(0, -1), "y": 0.0}},
		{Op: "search", Pattern: map[string]interface{}{"z": 0.0}},
		{Op: "search", Pattern: map[string]interface{}{"y": math.Copysign(0, -1)}},
		{Op: "search", Pattern: map[string]interface{}{"z": "?v", "y": math.Copysign(0, -1)}},
	} {
		step(r, locs, m, &run, o, written, gi)
	}
}
