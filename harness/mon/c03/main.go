// Monitor for C03: condition queries follow and/or/not/pattern/code
// semantics.  Generated query trees are evaluated by Location.Query (and, for
// a subsample, as a rule `condition` inside ProcessEvent) and compared as
// multisets of bindings with the reference evaluator ref.Eval.
package main

import (
	"encoding/json"
	"fmt"
	"os"
	"strings"

	"github.com/Comcast/rulio/core"

	"verif/lib/drv"
	"verif/lib/gen"
	"verif/lib/ref"
	"verif/lib/rep"
)

var qvars = []string{"?x", "?y", "?x"}

func flatFact(g *gen.Gen) map[string]interface{} {
	m := map[string]interface{}{}
	n := 1 + g.Intn(3)
	for i := 0; i < n; i++ {
		k := gen.Keys[g.Intn(4)]
		switch g.Intn(8) {
		case 0:
			m[k] = g.ScalarArray(1 + g.Intn(3))
		case 1:
			m[k] = gen.Nums[g.Intn(len(gen.Nums))]
		case 2:
			if g.Intn(2) == 0 {
				m[k] = nil // JSON null is a value like any other: a variable can be bound to it
			} else {
				m[k] = g.Intn(2) == 0
			}
		default:
			m[k] = gen.Strs[g.Intn(4)]
		}
	}
	return m
}

func patFrom(g *gen.Gen, f map[string]interface{}) map[string]interface{} {
	p := map[string]interface{}{}
	if g.Intn(10) == 0 {
		// a property variable (allowed as the only key): shared with other conjuncts it is bound there
		for k, v := range f {
			if _, isArr := v.([]interface{}); isArr || k > "b" {
				continue
			}
			if g.Intn(2) == 0 {
				return map[string]interface{}{qvars[g.Intn(3)]: v}
			}
			return map[string]interface{}{qvars[g.Intn(3)]: qvars[g.Intn(3)]}
		}
	}
	for k, v := range f {
		if g.Intn(4) == 0 && len(p) > 0 {
			continue
		}
		switch vv := v.(type) {
		case []interface{}:
			if g.Intn(2) == 0 && len(vv) > 0 {
				p[k] = []interface{}{qvars[g.Intn(3)]}
			} else {
				p[k] = ref.Norm(vv)
			}
		default:
			switch g.Intn(5) {
			case 0, 1:
				p[k] = qvars[g.Intn(3)]
			case 2:
				p[k] = gen.Strs[g.Intn(4)]
			default:
				p[k] = v
			}
		}
	}
	return p
}

func genQuery(g *gen.Gen, depth int, facts []map[string]interface{}) ref.Q {
	if depth <= 0 || g.Intn(3) == 0 {
		if g.Intn(4) == 0 {
			names := ref.CodeNames()
			return ref.Q{"code": names[g.Intn(len(names))]}
		}
		if len(facts) > 0 && g.Intn(6) != 0 {
			return ref.Q{"pattern": patFrom(g, facts[g.Intn(len(facts))])}
		}
		return ref.Q{"pattern": patFrom(g, flatFact(g))}
	}
	n := g.Intn(4)
	subs := []interface{}{}
	for i := 0; i < n; i++ {
		subs = append(subs, genQuery(g, depth-1, facts))
	}
	switch g.Intn(8) {
	case 0, 1, 2:
		return ref.Q{"and": subs}
	case 3:
		return ref.Q{"or": subs}
	case 4:
		return ref.Q{"or": subs, "shortCircuit": true}
	case 5, 6:
		return ref.Q{"not": genQuery(g, depth-1, facts)}
	}
	return ref.Q{}
}

func qdepth(q ref.Q) int {
	d := 0
	for _, k := range []string{"and", "or"} {
		if a, ok := q[k].([]interface{}); ok {
			for _, s := range a {
				if n := qdepth(s.(ref.Q)); n > d {
					d = n
				}
			}
			return d + 1
		}
	}
	if n, ok := q["not"].(ref.Q); ok {
		return qdepth(n) + 1
	}
	return 1
}

func nested(q ref.Q, under bool) bool {
	for _, k := range []string{"and", "or"} {
		if a, ok := q[k].([]interface{}); ok {
			for _, s := range a {
				if nested(s.(ref.Q), true) {
					return true
				}
			}
			return under && k == "or"
		}
	}
	if n, ok := q["not"].(ref.Q); ok {
		return under || nested(n, true)
	}
	return false
}

func leafRepeated(q ref.Q) bool {
	if p, ok := q["pattern"]; ok {
		return ref.HasRepeatedVar(p, nil)
	}
	for _, k := range []string{"and", "or"} {
		if a, ok := q[k].([]interface{}); ok {
			for _, s := range a {
				if leafRepeated(s.(ref.Q)) {
					return true
				}
			}
		}
	}
	if n, ok := q["not"].(ref.Q); ok {
		return leafRepeated(n)
	}
	return false
}

// hasPropVar: some pattern leaf of the query has a variable in key position.
func hasPropVar(q ref.Q) bool {
	if p, ok := q["pattern"].(map[string]interface{}); ok {
		for k := range p {
			if ref.IsVar(k) {
				return true
			}
		}
		return false
	}
	for _, k := range []string{"and", "or"} {
		if a, ok := q[k].([]interface{}); ok {
			for _, s := range a {
				if hasPropVar(s.(ref.Q)) {
					return true
				}
			}
		}
	}
	if n, ok := q["not"].(ref.Q); ok {
		return hasPropVar(n)
	}
	return false
}

func toB(bss []core.Bindings) []ref.B {
	out := make([]ref.B, len(bss))
	for i, b := range bss {
		out[i] = ref.B(b)
	}
	return out
}

// directed: a variable bound by an earlier conjunct and used in key position by a later one.
func directed(r *rep.Report) {
	type dc struct {
		facts []map[string]interface{}
		q     ref.Q
	}
	P := func(kv ...interface{}) map[string]interface{} {
		m := map[string]interface{}{}
		for i := 0; i+1 < len(kv); i += 2 {
			m[kv[i].(string)] = ref.Norm(kv[i+1])
		}
		return m
	}
	and := func(ps ...map[string]interface{}) ref.Q {
		subs := []interface{}{}
		for _, p := range ps {
			subs = append(subs, ref.Q{"pattern": p})
		}
		return ref.Q{"and": subs}
	}
	cases := []dc{
		{[]map[string]interface{}{P("name", "color"), P("size", "red")}, and(P("name", "?p"), P("?p", "red"))},
		{[]map[string]interface{}{P("name", "color"), P("color", "red", "size", "big")}, and(P("name", "?p"), P("?p", "red"))},
		{[]map[string]interface{}{P("name", "size"), P("color", "red", "size", "red")}, and(P("name", "?p"), P("?p", "red"))},
		{[]map[string]interface{}{P("name", "color", "is", "red"), P("color", "red"), P("size", "red")}, and(P("name", "?p", "is", "?v"), P("?p", "?v"))},
		{[]map[string]interface{}{P("name", "color"), P("color", "red", "size", "big")}, and(P("name", "?p"), P("?p", "?v"))},
	}
	// values a code term returns (numbers, arrays, maps) used by a later pattern
	andc := func(code string, ps ...map[string]interface{}) ref.Q {
		subs := []interface{}{ref.Q{"code": code}}
		for _, p := range ps {
			subs = append(subs, ref.Q{"pattern": p})
		}
		return ref.Q{"and": subs}
	}
	structured := []map[string]interface{}{P("a", 1, "t", "one"), P("b", []interface{}{-1}, "t", "arr"), P("c", []interface{}{"s1", "x"}, "t", "strs"), P("d", P("k", 1, "m", []interface{}{2}), "t", "map"), P("a", 2, "t", "two")}
	cases = append(cases,
		dc{structured, andc("({x:1})", P("a", "?x", "t", "?t"))},
		dc{structured, andc("({y:[-1]})", P("b", "?y", "t", "?t"))},
		dc{structured, andc("({x:['s1','x']})", P("c", "?x", "t", "?t"))},
		dc{structured, andc("({y:{k:1,m:[2]}})", P("d", "?y", "t", "?t"))},
	)
	for ci, c := range cases {
		for _, kind := range drv.Kinds {
			loc, err := drv.NewLoc("D", kind, drv.MustMem())
			if err != nil {
				continue
			}
			for i, f := range c.facts {
				loc.AddFact(drv.Ctx(), fmt.Sprintf("d%d", i), core.Map(ref.CloneMap(f)))
			}
			js, _ := json.Marshal(c.q)
			want := ref.Multiset(ref.Eval(c.q, c.facts, []ref.B{{}}))
			r.Case(true, fmt.Sprint("directed", ci, kind))
			r.Count("directed_key_position_cases", 1)
			qr, err := loc.Query(drv.Ctx(), string(js))
			wit := rep.J{"state": kind, "facts": c.facts, "query": c.q, "want": want, "error": drv.ErrStr(err)}
			if err != nil {
				if strings.Contains(err.Error(), "No terms given") {
					r.Violate("c03.zero-term-pattern", "query aborted by the zero-term refusal of indexed state (see c02.zero-term-pattern)", wit)
					continue
				}
				r.Violate("", "Query failed: "+err.Error(), wit)
				continue
			}
			got := ref.Multiset(toB(qr.Bss))
			wit["got"] = got
			if !ref.SameSet(got, want) {
				r.Violate("", "directed query: the result differs from the reference evaluation (a bound variable in key position, or a value returned by a code term and used by a later pattern)", wit)
			}
		}
	}
}

func main() {
	e := rep.GetEnv()
	r := rep.New(e)
	if e.Batch == 0 {
		directed(r)
	}
	nSets := e.Pick(500, 5000)
	for si := 0; si < nSets; si++ {
		g := gen.New(e.BatchSeed()*86028121 + int64(si))
		g.Lookalikes = si%2 == 1
		kind := drv.Kinds[si%2]
		withParent := si%4 >= 2
		store := drv.MustMem()
		loc, err := drv.NewLoc("L", kind, store)
		if err != nil {
			r.Violate("", "cannot build location", nil)
			break
		}
		var all []map[string]interface{}
		hasArray := false
		addTo := func(l *core.Location, prefix string, n int) {
			for i := 0; i < n; i++ {
				f := flatFact(g)
				for _, v := range f {
					if _, ok := v.([]interface{}); ok {
						hasArray = true
					}
				}
				if _, err := l.AddFact(drv.Ctx(), fmt.Sprintf("%s%d", prefix, i), core.Map(ref.CloneMap(f))); err == nil {
					all = append(all, f)
				}
			}
		}
		addTo(loc, "f", g.Intn(6))
		if withParent {
			par, _ := drv.NewLoc("P", kind, drv.MustMem())
			prov := core.NewSimpleLocationProvider(map[string]*core.Location{"L": loc, "P": par})
			loc.Provider, par.Provider = prov, prov
			// in half of the sets the parent uses the ids of the child (ids are per location)
			pp := "p"
			if si%8 >= 6 {
				pp = "f"
			}
			addTo(par, pp, 1+g.Intn(3))
			loc.SetParents(drv.Ctx(), []string{"P"})
		}
		// rule used to observe the query as a condition
		for k := 0; k < 4; k++ {
			q := genQuery(g, 3, all)
			js, _ := json.Marshal(q)
			r.Journal(rep.J{"set": si, "query": string(js)})
			facts := all
			if withParent {
				// the parents property fact of L is a fact, too
				facts = append(append([]map[string]interface{}{}, all...), map[string]interface{}{"id": "", "!parents": []interface{}{"P"}, "deleteWith": []interface{}{""}})
			}
			want := ref.Multiset(ref.Eval(q, facts, []ref.B{{}}))
			nontrivial := (qdepth(q) >= 2 && len(want) > 0) || nested(q, false)
			r.Case(nontrivial, kind+ref.Canon([]interface{}{facts, q}))
			if len(want) > 0 {
				r.Count("queries_nonempty", 1)
			}
			wit := func(got interface{}, err error) rep.J {
				return rep.J{"state": kind, "with_parent": withParent, "facts": facts, "query": q, "want": want, "got": got, "error": drv.ErrStr(err)}
			}
			qr, err := loc.Query(drv.Ctx(), string(js))
			if err != nil {
				if strings.Contains(err.Error(), "No terms given") {
					r.Violate("c03.zero-term-pattern", "query aborted by the zero-term refusal of indexed state (see c02.zero-term-pattern)", wit(nil, err))
					continue
				}
				r.Violate("", "Query failed: "+err.Error(), wit(nil, err))
				continue
			}
			got := ref.Multiset(toB(qr.Bss))
			if !ref.SameSet(got, want) {
				if leafRepeated(q) && hasArray {
					r.Violate("c03.repeated-var-structured", "differs only where a repeated variable meets array values (see C05)", wit(got, nil))
				} else {
					r.Violate("", "Query result differs from the reference evaluator (as multisets of bindings)", wit(got, nil))
				}
				continue
			}
			if nontrivial && len(want) > 0 && r.WantSample() {
				r.Sample(rep.J{"state": kind, "facts": facts, "query": q, "bindings": want})
			}
			if k%2 == 0 && !hasPropVar(q) {
				// (a property variable would also meet the observing rule itself, which is a fact of the location)
				condition(r, loc, q, want, wit, leafRepeated(q) && hasArray)
			}
		}
	}
	r.Write()
	fmt.Fprintf(os.Stderr, "c03 batch %d: %d evaluations\n", e.Batch, r.Evaluations)
}

// condition evaluates q as the condition of a rule and reads the bindings that
// reach the action nodes.
func condition(r *rep.Report, loc *core.Location, q ref.Q, want []string, wit func(interface{}, error) rep.J, repeatedOverArrays bool) {
	rule := core.Map{"when": map[string]interface{}{"pattern": map[string]interface{}{"go": "now"}},
		"condition": ref.Clone(q), "action": map[string]interface{}{"code": "1"}}
	if _, err := loc.AddRule(drv.Ctx(), "cond-rule", rule); err != nil {
		r.Violate("", "AddRule with a generated condition failed: "+err.Error(), wit(nil, err))
		return
	}
	defer loc.RemRule(drv.Ctx(), "cond-rule")
	fr, cond := loc.ProcessEvent(drv.Ctx(), core.Map{"go": "now"})
	r.Count("evaluated_as_rule_condition", 1)
	if cond != nil {
		r.Violate("", "ProcessEvent with a generated condition failed: "+cond.Msg, wit(nil, nil))
		return
	}
	var got []ref.B
	for _, er := range fr.Children {
		for _, erc := range er.Children {
			if erc.Disposition != core.Complete {
				r.Violate("", "condition node not complete: "+erc.Disposition.Msg, wit(nil, nil))
				return
			}
			for _, era := range erc.Children {
				b := ref.B{}
				for k, v := range era.Bindings {
					if k == "?event" || k == "?location" || k == "?ruleId" {
						continue
					}
					b[k] = v
				}
				got = append(got, b)
			}
		}
	}
	g := ref.Multiset(got)
	if !ref.SameSet(g, want) {
		if repeatedOverArrays {
			// The matcher's answer for such a leaf varies from call to call (C05), so
			// the Query above and this evaluation can disagree with each other, too.
			r.Violate("c03.repeated-var-structured", "condition differs only where a repeated variable meets array values (see C05)", wit(g, nil))
			return
		}
		r.Violate("", "bindings reaching the actions differ from the reference evaluation of the condition", wit(g, nil))
	}
}
