// Monitor for C04: an event runs each action exactly once per rule and
// binding result.  Conservation / exactly-once oracle over three independent
// records of the same executions: the Env.out side channel, the work tree
// (ExecRuleAction nodes) and FindRules.Values, all compared with the expected
// multiset rules x when-bindings x condition-bindings x actions computed by
// the reference matcher and query evaluator.  Built with the race detector.
package main

import (
	"fmt"
	"os"
	"sort"
	"strings"

	"github.com/Comcast/rulio/core"
	"github.com/Comcast/rulio/sys"

	"verif/lib/cronner"
	"verif/lib/drv"
	"verif/lib/gen"
	"verif/lib/ref"
	"verif/lib/rep"
)

// the ok action reports its environment; it also reports whether it found the event as
// submitted (no mark of another execution on it) and then writes into its event: every
// execution works on its own copy, and the event in the returned tree stays as submitted
const okTpl = `var X=(typeof x=='undefined')?'-':String(x); var Y=(typeof y=='undefined')?'-':String(y); var M=(typeof event.mark=='undefined' && event.k!=='marked')?'clean':'marked by '+String(event.mark); var S=[ruleId,'%s',location,event.k,X,Y,M].join('|'); event.mark=S; event.k='marked'; Env.out(S); S`

var failing = []string{`throw 'boom'`, `{{{ not javascript`, `undefinedFn()`}

type rspec struct {
	Id      string                 `json:"id"`
	When    map[string]interface{} `json:"when"`
	Cond    ref.Q                  `json:"condition,omitempty"`
	Actions []string               `json:"actions"` // "ok" or a failing script
	Serial  bool                   `json:"serial,omitempty"`
}

func (rs rspec) toMap() core.Map {
	acts := []interface{}{}
	for i, a := range rs.Actions {
		code := a
		if a == "ok" {
			code = fmt.Sprintf(okTpl, fmt.Sprintf("a%d", i))
		}
		acts = append(acts, map[string]interface{}{"code": code})
	}
	m := core.Map{"when": map[string]interface{}{"pattern": ref.CloneMap(rs.When)}, "actions": acts}
	if rs.Cond != nil {
		m["condition"] = ref.Clone(rs.Cond)
	}
	if rs.Serial {
		m["policies"] = map[string]interface{}{"serialActions": true}
	}
	return m
}

func str(b ref.B, v string) string {
	x, ok := b[v]
	if !ok {
		return "-"
	}
	return fmt.Sprint(x)
}

// systemWrites: through sys.System (which wires cron hooks to every state) several
// concurrently executing actions of one event write facts with Env.AddFact: every
// write must land, exactly once per execution, and the process must survive.
func systemWrites(r *rep.Report, e rep.Env) {
	rounds := e.Pick(30, 200)
	for round := 0; round < rounds; round++ {
		s, err := drv.NewSys(drv.SysOpts{Linear: round%2 == 1, TTL: sys.Forever}, cronner.New(true))
		if err != nil {
			r.Violate("", "cannot build system: "+err.Error(), nil)
			return
		}
		rule := `{"when":{"pattern":{"k":"go","arr":["?x"]}},"actions":[{"code":"Env.AddFact('a0-'+x,{by:'a0',x:x}); 'a0|'+x"},{"code":"Env.AddFact('a1-'+x,{by:'a1',x:x}); 'a1|'+x"}]}`
		if out := drv.SysDo(s, drv.Req{Op: "addRule", Loc: "W", Id: "w", Doc: rule}); !strings.HasPrefix(out, "id=") {
			r.Violate("", "AddRule failed: "+out, nil)
			continue
		}
		r.Journal(rep.J{"system_writes_round": round})
		out := drv.SysDo(s, drv.Req{Op: "event", Loc: "W", Doc: `{"k":"go","arr":["s1","s2","x"]}`})
		want := "a0|s1,a0|s2,a0|x,a1|s1,a1|s2,a1|x"
		r.Case(true, fmt.Sprint("syswrites", e.BatchSeed(), round))
		r.Count("system_write_events", 1)
		wit := rep.J{"via": "sys.System", "rule": rule, "values": out}
		if out != want {
			r.Violate("", "concurrent writing actions of one event through the System: values differ from the 6 expected executions", wit)
			continue
		}
		for _, a := range []string{"a0", "a1"} {
			for _, x := range []string{"s1", "s2", "x"} {
				if got := drv.SysDo(s, drv.Req{Op: "getFact", Loc: "W", Id: a + "-" + x}); !strings.Contains(got, `"by":"`+a+`"`) {
					wit["missing"] = a + "-" + x
					r.Violate("", "a fact written by an action execution is missing: "+got, wit)
				}
			}
		}
	}
}

// triggered: rules run through {"trigger!":id} (how cron fires scheduled rules) and
// {"evaluate!":rule} see their own id as ruleId (the id they are stored under, "embedded"
// for an embedded rule), also when the rule body carries an "id" of its own, run each action
// once, and a one-shot rule is gone afterwards.
func triggered(r *rep.Report, e rep.Env) {
	for round := 0; round < e.Pick(16, 100); round++ {
		kind := drv.Kinds[round%2]
		T := fmt.Sprintf("T%d", round%3) // names and ids vary from round to round: nothing of an earlier run may show
		once := fmt.Sprintf("once%d", round)
		loc, err := drv.NewLoc(T, kind, drv.MustMem())
		if err != nil {
			r.Violate("", "cannot build location", nil)
			return
		}
		bodyId := []interface{}{nil, "alias", "r1", ""}[round/2%4]
		mk := func(extra map[string]interface{}) core.Map {
			m := core.Map{"actions": []interface{}{map[string]interface{}{"code": "ruleId + '@' + location + '#0'"}, map[string]interface{}{"code": "ruleId + '@' + location + '#1'"}}}
			if bodyId != nil {
				m["id"] = bodyId
			}
			for k, v := range extra {
				m[k] = v
			}
			return m
		}
		ctx := drv.Ctx()
		if _, err := loc.AddRule(ctx, "r1", mk(map[string]interface{}{"when": map[string]interface{}{"pattern": map[string]interface{}{"k": "go"}}})); err != nil {
			r.Violate("", "AddRule failed: "+err.Error(), nil)
			continue
		}
		if _, err := loc.AddRule(ctx, once, mk(map[string]interface{}{"schedule": "+1h"})); err != nil {
			r.Violate("", "AddRule (one-shot) failed: "+err.Error(), nil)
			continue
		}
		vals := func(fr *core.FindRules) string {
			var vs []string
			if fr != nil {
				for _, v := range fr.Values {
					vs = append(vs, fmt.Sprint(v))
				}
			}
			sort.Strings(vs)
			return strings.Join(vs, ",")
		}
		treeIds := func(fr *core.FindRules) string {
			var ids []string
			if fr != nil {
				for _, er := range fr.Children {
					if er.Rule != nil {
						ids = append(ids, er.Rule.Id)
					}
				}
			}
			sort.Strings(ids)
			return strings.Join(ids, ",")
		}
		type tc struct {
			name, wantVals, wantIds string
			ev                      core.Map
		}
		for _, c := range []tc{
			{"ordinary event", "r1@" + T + "#0,r1@" + T + "#1", "r1", core.Map{"k": "go"}},
			{"trigger event", "r1@" + T + "#0,r1@" + T + "#1", "r1", core.Map{"trigger!": "r1", "k": "go"}},
			{"embedded rule", "embedded@" + T + "#0,embedded@" + T + "#1", "embedded", core.Map{"evaluate!": map[string]interface{}(mk(map[string]interface{}{"when": map[string]interface{}{"pattern": map[string]interface{}{"k": "?any"}}})), "k": "go"}},
			{"trigger of a one-shot rule", once + "@" + T + "#0," + once + "@" + T + "#1", once, core.Map{"trigger!": once}},
		} {
			r.Journal(rep.J{"triggered_round": round, "case": c.name, "body_id": bodyId})
			fr, cond := loc.ProcessEvent(drv.Ctx(), c.ev)
			r.Case(true, fmt.Sprint("triggered", kind, bodyId, c.name))
			r.Count("triggered_or_embedded_runs", 1)
			wit := rep.J{"state": kind, "case": c.name, "rule_body_id": bodyId, "values": vals(fr), "want_values": c.wantVals, "rules_in_tree": treeIds(fr), "condition": cond}
			if cond != nil {
				r.Violate("", c.name+": ProcessEvent reports a failure: "+cond.Msg, wit)
				continue
			}
			if vals(fr) != c.wantVals {
				r.Violate("", c.name+": the executions or the ruleId visible to the actions differ from the rule's own id", wit)
				continue
			}
			if treeIds(fr) != c.wantIds {
				r.Violate("", c.name+": the work tree names another rule than the one that ran", wit)
			}
		}
		if _, err := loc.GetRule(drv.Ctx(), once); err == nil {
			r.Violate("", "a one-shot rule is still stored after its triggered run", rep.J{"state": kind, "rule_body_id": bodyId})
		}
		if _, err := loc.GetRule(drv.Ctx(), "r1"); err != nil {
			r.Violate("", "an ordinary rule disappeared after triggered runs: "+err.Error(), rep.J{"state": kind, "rule_body_id": bodyId})
		}
	}
}

// reservedVars: a `when` pattern may use variables that are called like the three
// extra bindings (?location, ?ruleId, ?event).  What the match bound is what the
// condition and the actions see; only names the match left unbound get the extras.
// nullBindings: a `when` variable bound to JSON null is visible to the action as null (a value like
// any other), at top level and inside a bound map.
func nullBindings(r *rep.Report) {
	for _, kind := range drv.Kinds {
		loc, err := drv.NewLoc("N", kind, drv.MustMem())
		if err != nil {
			continue
		}
		rule := core.Map{"when": map[string]interface{}{"pattern": map[string]interface{}{"a": "?x", "m": "?m", "go": "null"}},
			"action": map[string]interface{}{"code": "[String(x === null), typeof x, String(m.inner === null), String(event.a === null)].join('|')"}}
		if _, err := loc.AddRule(drv.Ctx(), "nb", rule); err != nil {
			r.Violate("", "AddRule failed: "+err.Error(), nil)
			continue
		}
		fr, cond := loc.ProcessEvent(drv.Ctx(), core.Map{"a": nil, "m": map[string]interface{}{"inner": nil}, "go": "null"})
		got := ""
		if fr != nil && len(fr.Values) == 1 {
			got = fmt.Sprint(fr.Values[0])
		}
		r.Case(true, "null-binding"+kind)
		r.Count("null_binding_cases", 1)
		if cond != nil || got != "true|object|true|true" {
			r.Violate("", "a binding whose value is JSON null is not visible to the action as null", rep.J{"state": kind, "action_saw (x===null | typeof x | m.inner===null | event.a===null)": got, "want": "true|object|true|true", "condition": cond})
		}
	}
}

// condRebinds: a code condition that returns an object extends the bindings, and a name it shares with
// the `when` match is re-bound: every action of the rule (and the bindings recorded in the tree) sees
// exactly the binding set the condition produced, per `when` binding.
func condRebinds(r *rep.Report, e rep.Env) {
	n := e.Pick(12, 60)
	for i := 0; i < n; i++ {
		g := gen.New(e.BatchSeed()*7919 + int64(i))
		nv := 1 + g.Intn(3)
		vals := []interface{}{}
		want := []string{}
		for j := 0; j < nv; j++ {
			v := fmt.Sprintf("V%d%c", i, 'A'+j)
			vals = append(vals, v)
			for _, a := range []string{"a", "b"} {
				want = append(want, a+":"+strings.ToLower(v)+":"+v+"!")
			}
		}
		code := map[string]interface{}{"code": "({x: x.toLowerCase(), z: x + '!'})"}
		var condition interface{} = code
		form := g.Intn(3)
		switch form {
		case 1:
			condition = map[string]interface{}{"and": []interface{}{map[string]interface{}{"pattern": map[string]interface{}{"marker": "?m"}}, code}}
		case 2:
			condition = map[string]interface{}{"and": []interface{}{code, map[string]interface{}{"pattern": map[string]interface{}{"marker": "?m"}}}}
		}
		for _, kind := range drv.Kinds {
			loc, err := drv.NewLoc("R", kind, drv.MustMem())
			if err != nil {
				continue
			}
			loc.AddFact(drv.Ctx(), "mk", core.Map{"marker": "here"})
			rule := core.Map{"when": map[string]interface{}{"pattern": map[string]interface{}{"wants": []interface{}{"?x"}}},
				"condition": ref.Clone(condition),
				"actions": []interface{}{map[string]interface{}{"code": "'a:' + x + ':' + z"}, map[string]interface{}{"code": "'b:' + x + ':' + z"}}}
			if _, err := loc.AddRule(drv.Ctx(), "rb", rule); err != nil {
				r.Violate("", "AddRule failed: "+err.Error(), nil)
				continue
			}
			fr, cond := loc.ProcessEvent(drv.Ctx(), core.Map{"wants": ref.Clone(vals)})
			got := []string{}
			treeX := []string{}
			if fr != nil {
				for _, v := range fr.Values {
					got = append(got, fmt.Sprint(v))
				}
				for _, er := range fr.Children {
					for _, erc := range er.Children {
						for _, era := range erc.Children {
							treeX = append(treeX, fmt.Sprint(era.Bindings["?x"]))
						}
					}
				}
			}
			sort.Strings(got)
			sort.Strings(want)
			sort.Strings(treeX)
			wantX := []string{}
			for _, v := range vals {
				wantX = append(wantX, strings.ToLower(v.(string)), strings.ToLower(v.(string)))
			}
			sort.Strings(wantX)
			r.Case(true, fmt.Sprint("cond-rebinds", kind, i, form))
			r.Count("condition_rebind_cases", 1)
			if cond != nil || fmt.Sprint(got) != fmt.Sprint(want) || fmt.Sprint(treeX) != fmt.Sprint(wantX) {
				r.Violate("", "a code condition re-bound a `when` variable: the actions (or the bindings recorded in the tree) did not see exactly the binding set the condition produced", rep.J{"state": kind, "rule": rule, "event_wants": vals, "values": got, "want_values": want, "tree_x": treeX, "want_tree_x": wantX, "condition": cond})
			}
		}
	}
}

func reservedVars(r *rep.Report, e rep.Env) {
	type tc struct {
		when  map[string]interface{}
		event map[string]interface{}
		want  string // location|ruleId|typeof event-or-its-value
	}
	cases := []tc{
		{map[string]interface{}{"motion": "?location"}, map[string]interface{}{"motion": "kitchen"}, "kitchen|rv|object"},
		{map[string]interface{}{"motion": "?location", "by": "?ruleId"}, map[string]interface{}{"motion": "kitchen", "by": "cat"}, "kitchen|cat|object"},
		{map[string]interface{}{"payload": "?event"}, map[string]interface{}{"payload": "p1"}, "R|rv|p1"},
		{map[string]interface{}{"motion": "?where"}, map[string]interface{}{"motion": "kitchen"}, "R|rv|object"},
	}
	for ci, c := range cases {
		for _, kind := range drv.Kinds {
			for _, withCond := range []bool{false, true} {
				loc, err := drv.NewLoc("R", kind, drv.MustMem())
				if err != nil {
					r.Violate("", "cannot build location", nil)
					return
				}
				rule := core.Map{"when": map[string]interface{}{"pattern": ref.CloneMap(c.when)},
					"action": map[string]interface{}{"code": "[location, ruleId, (typeof event == 'object') ? 'object' : String(event)].join('|')"}}
				if withCond {
					loc.AddFact(drv.Ctx(), "f", core.Map{"t": "x"})
					rule["condition"] = map[string]interface{}{"pattern": map[string]interface{}{"t": "?t"}}
				}
				if _, err := loc.AddRule(drv.Ctx(), "rv", rule); err != nil {
					r.Violate("", "AddRule failed: "+err.Error(), rep.J{"when": c.when})
					continue
				}
				fr, cond := loc.ProcessEvent(drv.Ctx(), core.Map(ref.CloneMap(c.event)))
				got := ""
				if fr != nil && len(fr.Values) == 1 {
					got = fmt.Sprint(fr.Values[0])
				}
				r.Case(true, fmt.Sprint("reserved", ci, kind, withCond))
				r.Count("reserved_variable_name_cases", 1)
				if cond != nil || got != c.want {
					r.Violate("", "a `when` variable named like an extra binding (?location, ?ruleId, ?event): the action did not see what the match bound", rep.J{"state": kind, "when": c.when, "event": c.event, "with_condition": withCond, "action_saw": got, "want": c.want, "condition": cond})
				}
			}
		}
	}
}

// sharedValues: bindings can hold structured values (a map or an array taken from the event or
// from a fact).  An action that writes into such a value writes into its own copy: the other
// executions of the event (other actions, other binding sets, other rules) see the value as matched.
func sharedValues(r *rep.Report, e rep.Env) {
	for _, kind := range drv.Kinds {
		for _, serial := range []bool{true, false} {
			for _, src := range []string{"event", "fact"} {
				loc, err := drv.NewLoc("V", kind, drv.MustMem())
				if err != nil {
					r.Violate("", "cannot build location", nil)
					return
				}
				act := func(tag string) map[string]interface{} {
					return map[string]interface{}{"code": "var seen = o.n + ':' + o.tags[0]; o.n = o.n + 1; o.tags[0] = 'changed by " + tag + "'; '" + tag + " saw ' + seen"}
				}
				rule := core.Map{"actions": []interface{}{act("a0"), act("a1"), act("a2")}}
				ev := core.Map{"go": "now"}
				if src == "event" {
					rule["when"] = map[string]interface{}{"pattern": map[string]interface{}{"go": "now", "obj": "?o"}}
					ev["obj"] = map[string]interface{}{"n": 1.0, "tags": []interface{}{"t"}}
				} else {
					rule["when"] = map[string]interface{}{"pattern": map[string]interface{}{"go": "now"}}
					rule["condition"] = map[string]interface{}{"pattern": map[string]interface{}{"holds": "?o"}}
					loc.AddFact(drv.Ctx(), "f", core.Map{"holds": map[string]interface{}{"n": 1.0, "tags": []interface{}{"t"}}})
				}
				if serial {
					rule["policies"] = map[string]interface{}{"serialActions": true}
				}
				if _, err := loc.AddRule(drv.Ctx(), "sv", rule); err != nil {
					r.Violate("", "AddRule failed: "+err.Error(), nil)
					continue
				}
				var all []string
				for round := 0; round < 2; round++ { // the second event must find everything as matched again
					fr, cond := loc.ProcessEvent(drv.Ctx(), core.Map(ref.CloneMap(ev)))
					vals := []string{}
					if fr != nil {
						for _, v := range fr.Values {
							vals = append(vals, fmt.Sprint(v))
						}
					}
					sort.Strings(vals)
					all = append(all, strings.Join(vals, ","))
					if cond != nil {
						all = append(all, "FAILED: "+cond.Msg)
					}
				}
				want := "a0 saw 1:t,a1 saw 1:t,a2 saw 1:t"
				r.Case(true, fmt.Sprint("shared-values", kind, serial, src))
				r.Count("shared_value_cases", 1)
				if all[0] != want || len(all) != 2 || all[1] != want {
					r.Violate("", "an action that wrote into a structured value of its bindings changed what other executions (or the next event) see", rep.J{"state": kind, "serial_actions": serial, "value_bound_from": src, "values_per_event": all, "want_each": want})
				}
			}
		}
	}
}

func main() {
	e := rep.GetEnv()
	r := rep.New(e)
	sharedValues(r, e)
	systemWrites(r, e)
	triggered(r, e)
	reservedVars(r, e)
	nullBindings(r)
	condRebinds(r, e)
	nWorlds := e.Pick(150, 1000)
	arrs := [][]interface{}{{"s1"}, {"s1", "s2"}, {"s1", "s2", "x"}, {}}
	for wi := 0; wi < nWorlds; wi++ {
		g := gen.New(e.BatchSeed()*67867967 + int64(wi))
		kind := drv.Kinds[wi%2]
		loc, err := drv.NewLoc("L", kind, drv.MustMem())
		if err != nil {
			r.Violate("", "cannot build location", nil)
			break
		}
		// facts for conditions
		var facts []map[string]interface{}
		nf := g.Intn(4)
		for i := 0; i < nf; i++ {
			f := map[string]interface{}{"t": gen.Strs[i%4]}
			loc.AddFact(drv.Ctx(), fmt.Sprintf("f%d", i), core.Map(ref.CloneMap(f)))
			facts = append(facts, f)
		}
		// rules
		var rules []rspec
		nr := g.Intn(5)
		anyFail, anySerial := false, false
		serialRuleFails := false // some serial rule has a failing action: the walk may stop there (order dependent)
		for i := 0; i < nr; i++ {
			rs := rspec{Id: fmt.Sprintf("r%d", i)}
			switch g.Intn(4) {
			case 0:
				rs.When = map[string]interface{}{"k": "go"}
			case 1:
				rs.When = map[string]interface{}{"k": "?kk", "arr": []interface{}{"?x"}}
			default:
				rs.When = map[string]interface{}{"k": "go", "arr": []interface{}{"?x"}}
			}
			switch g.Intn(5) {
			case 0:
				rs.Cond = ref.Q{"pattern": map[string]interface{}{"t": "?y"}}
			case 1:
				rs.Cond = ref.Q{"and": []interface{}{ref.Q{"pattern": map[string]interface{}{"t": "?y"}}, ref.Q{"not": ref.Q{"pattern": map[string]interface{}{"t": "?x"}}}}}
			case 2:
				rs.Cond = ref.Q{"or": []interface{}{ref.Q{"pattern": map[string]interface{}{"t": "?y"}}, ref.Q{"pattern": map[string]interface{}{"t": "?x"}}}}
			}
			na := 1 + g.Intn(3)
			for a := 0; a < na; a++ {
				if g.Intn(9) == 0 {
					rs.Actions = append(rs.Actions, failing[g.Intn(len(failing))])
					anyFail = true
				} else {
					rs.Actions = append(rs.Actions, "ok")
				}
			}
			rs.Serial = g.Intn(5) == 0
			anySerial = anySerial || rs.Serial
			if rs.Serial {
				for _, a := range rs.Actions {
					if a != "ok" {
						serialRuleFails = true
					}
				}
			}
			if _, err := loc.AddRule(drv.Ctx(), rs.Id, rs.toMap()); err != nil {
				r.Violate("", "AddRule failed: "+err.Error(), rep.J{"rule": rs})
				continue
			}
			rules = append(rules, rs)
		}
		for ei := 0; ei < 5; ei++ {
			ev := map[string]interface{}{"k": g.Pick([]string{"go", "go", "stop"}), "arr": ref.Norm(arrs[g.Intn(len(arrs))])}
			r.Journal(rep.J{"world": wi, "state": kind, "rules": rules, "facts": facts, "event": ev})
			// expected executions
			var want []string
			wantFail := 0
			for _, rs := range rules {
				for _, b1 := range ref.Match(rs.When, ev, ref.B{}) {
					bs := []ref.B{b1}
					if rs.Cond != nil {
						bs = ref.Eval(rs.Cond, facts, bs)
					}
					for _, b2 := range bs {
						for ai, a := range rs.Actions {
							if a == "ok" {
								want = append(want, strings.Join([]string{rs.Id, fmt.Sprintf("a%d", ai), "L", fmt.Sprint(ev["k"]), str(b2, "?x"), str(b2, "?y"), "clean"}, "|"))
							} else {
								wantFail++
							}
						}
					}
				}
			}
			sort.Strings(want)
			ctx := drv.Ctx()
			ch := make(chan interface{}, 4096)
			ctx.AddProp("out", ch)
			fr, cond := loc.ProcessEvent(ctx, core.Map(ref.CloneMap(ev)))
			var outs, tree, vals []string
			for len(ch) > 0 {
				outs = append(outs, fmt.Sprint(<-ch))
			}
			treeFail := 0
			envOK := true
			for _, er := range fr.Children {
				for _, erc := range er.Children {
					for _, era := range erc.Children {
						if era.Disposition == core.Complete {
							tree = append(tree, fmt.Sprint(era.Value))
						} else if era.Disposition != nil {
							treeFail++
						}
						for _, k := range []string{"?event", "?location", "?ruleId"} {
							if _, ok := era.Bindings[k]; !ok && era.Disposition != nil {
								envOK = false
							}
						}
					}
				}
			}
			for _, v := range fr.Values {
				vals = append(vals, fmt.Sprint(v))
			}
			sort.Strings(outs)
			sort.Strings(tree)
			sort.Strings(vals)
			r.Case(len(want)+wantFail >= 2, kind+ref.Canon([]interface{}{rules, facts, ev}))
			if len(want) >= 2 {
				r.Count("events_with_2plus_executions", 1)
			}
			r.Count("executions_expected", len(want))
			r.Count("failing_executions_expected", wantFail)
			wit := rep.J{"state": kind, "rules": rules, "facts": facts, "event": ev, "expected": want, "expected_failing": wantFail,
				"out_channel": outs, "tree_complete": tree, "tree_failed": treeFail, "values": vals, "condition": cond}
			// only a failing action of a SERIAL rule may stop the walk; failing actions of other rules
			// (next to serial rules whose actions all succeed) stop nothing
			serialFail := serialRuleFails
			if !ref.SameSet(outs, tree) && !anyFail {
				r.Violate("", "side effects (Env.out) and work tree disagree about which actions ran", wit)
				continue
			}
			if !ref.SameSet(tree, vals) {
				r.Violate("", "work tree and `values` disagree", wit)
				continue
			}
			if anyFail {
				// a failing script may have run Env.out before failing? no: failing scripts never call it.
				if !ref.SameSet(outs, tree) {
					r.Violate("", "side effects (Env.out) and work tree disagree about which actions ran", wit)
					continue
				}
			}
			if serialFail {
				// a failing action of a serial rule stops the walk: only conservation and "no extra execution"
				if !ref.Subset(tree, want) || len(tree) > len(want) {
					r.Violate("", "an execution happened that the model does not expect", wit)
				}
				continue
			}
			if cond != nil {
				r.Violate("", "ProcessEvent returned a failure although no serial rule has a failing action: "+cond.Msg, wit)
				continue
			}
			if !ref.SameSet(tree, want) {
				what := "executions differ from rules x when-bindings x condition-bindings x actions:"
				if len(tree) > len(want) {
					what += " an action ran more often than once per binding (or with wrong bindings)"
				} else if len(tree) < len(want) {
					what += " an expected execution is missing"
				} else {
					what += " an action saw the wrong environment"
				}
				r.Violate("", what, wit)
				continue
			}
			if ref.Canon(map[string]interface{}(fr.Event)) != ref.Canon(ev) {
				wit["event_in_tree"] = fr.Event
				r.Violate("", "the event reported in the work tree is not the event that was submitted (an action's write to its `event` variable leaked)", wit)
				continue
			}
			if treeFail != wantFail {
				r.Violate("", fmt.Sprintf("%d action nodes are non-complete, expected %d (failing actions must fail on their own node only)", treeFail, wantFail), wit)
				continue
			}
			if !envOK {
				r.Violate("", "an action node lacks the event/location/ruleId bindings", wit)
				continue
			}
			if len(want) >= 2 && r.WantSample() {
				r.Sample(rep.J{"state": kind, "rules": rules, "facts": facts, "event": ev, "executions": want, "failed_nodes": treeFail})
			}
		}
	}
	r.Write()
	fmt.Fprintf(os.Stderr, "c04 batch %d: %d evaluations\n", e.Batch, r.Evaluations)
}
