// Monitor for C12: concurrent requests to one location are atomic.
// 2-6 clients run generated operation sequences on shared ids of one
// location; every call is recorded {client, input, call-ts, output, return-ts}
// at the API boundary from one monotonic clock; final reads of every id from
// the live and from a reloaded location close the history.  The history is
// checked offline by porcupine against a sequential model; a history that
// fails the strict model is re-checked against the named relaxed model
// `pe-two-instant`.  Built with the race detector; injected delays at the
// verifhook points widen the windows between critical sections.
package main

import (
	"fmt"
	"io/ioutil"
	"math/rand"
	"net/http"
	"net/http/httptest"
	"os"
	"sort"
	"strings"
	"sync"
	"sync/atomic"
	"time"

	"github.com/Comcast/rulio/core"
	"github.com/Comcast/rulio/cron"
	"github.com/Comcast/rulio/service"
	"github.com/Comcast/rulio/sys"
	"github.com/anishathalye/porcupine"

	"verif/lib/cronner"
	"verif/lib/drv"
	"verif/lib/hook"
	"verif/lib/ref"
	"verif/lib/rep"
	vstore "verif/lib/store"
)

type In struct {
	Op     string `json:"op"` // addFact remFact getFact search addRule remRule enable flag event | pe-snap pe-flag pe-emit
	Id     string `json:"id,omitempty"`
	Tag    string `json:"tag,omitempty"`
	Group  string `json:"group,omitempty"`
	On     bool   `json:"on,omitempty"`
	Client int    `json:"client"`
}

// ---- sequential model: state is a canonical string ----
func parse(st string) map[string]string {
	m := map[string]string{}
	if st == "" {
		return m
	}
	for _, e := range strings.Split(st, ";") {
		p := strings.SplitN(e, "=", 2)
		m[p[0]] = p[1]
	}
	return m
}

func unparse(m map[string]string) string {
	ks := make([]string, 0, len(m))
	for k := range m {
		ks = append(ks, k)
	}
	sort.Strings(ks)
	out := make([]string, 0, len(ks))
	for _, k := range ks {
		out = append(out, k+"="+m[k])
	}
	return strings.Join(out, ";")
}

func eventOut(m map[string]string, group string, flagOf func(id string) bool) string {
	res := []string{}
	for k, v := range m {
		if !strings.HasPrefix(k, "I|") {
			continue
		}
		p := strings.Split(v, "|")
		if p[0] == "R" && p[1] == group && !flagOf(k[2:]) {
			res = append(res, p[2])
		}
	}
	sort.Strings(res)
	return strings.Join(res, ",")
}

// hooked: the history under judgement ran on a state with add/remove hooks (cron.AddHooks), as every
// location of a sys.System has.
var hooked bool

func step(state, input, output interface{}) (bool, interface{}) {
	st := state.(string)
	in := input.(In)
	out := output.(string)
	m := parse(st)
	switch in.Op {
	case "addFact":
		m["I|"+in.Id] = "F|" + in.Group + "|" + in.Tag
		return out == "ok", unparse(m)
	case "addRule":
		m["I|"+in.Id] = "R|" + in.Group + "|" + in.Tag
		return out == "ok", unparse(m)
	case "remFact", "remRule":
		if _, have := m["I|"+in.Id]; !have && hooked {
			// with remove hooks (as the System wires them) removing an absent id changes nothing and is
			// reported as not found by the hook's look-up (or as done, when the look-up still saw the id)
			return out == "ok" || (strings.HasPrefix(out, "ERR:") && strings.Contains(out, "not found")), st
		}
		delete(m, "I|"+in.Id)
		delete(m, "D|"+in.Id)
		return out == "ok", unparse(m)
	case "enable":
		if in.On {
			if _, have := m["D|"+in.Id]; !have && hooked {
				// enabling = removing the flag: absent flag, same error
				return out == "ok" || (strings.HasPrefix(out, "ERR:") && strings.Contains(out, "not found")), st
			}
			delete(m, "D|"+in.Id)
		} else {
			m["D|"+in.Id] = "1"
		}
		return out == "ok", unparse(m)
	case "flag":
		want := "on"
		if _, dis := m["D|"+in.Id]; dis {
			want = "off"
		}
		return out == want, st
	case "getFact":
		v, ok := m["I|"+in.Id]
		want := "notfound"
		if ok {
			p := strings.Split(v, "|")
			want = p[0] + ":" + p[2]
		}
		return out == want, st
	case "search":
		res := []string{}
		for k, v := range m {
			if !strings.HasPrefix(k, "I|") {
				continue
			}
			p := strings.Split(v, "|")
			if p[0] == "F" && p[1] == in.Group {
				res = append(res, k[2:]+"="+p[2])
			}
		}
		sort.Strings(res)
		return out == strings.Join(res, ","), st
	case "event":
		return out == eventOut(m, in.Group, func(id string) bool { _, d := m["D|"+id]; return d }), st

	// ---- relaxed model pe-two-instant: one ProcessEvent = snapshot of the
	// matching rules, one flag read per id, emit; ordered through the state.
	case "pe-snap":
		pre := fmt.Sprintf("S%d|", in.Client)
		for k := range m {
			if strings.HasPrefix(k, pre) || strings.HasPrefix(k, fmt.Sprintf("G%d|", in.Client)) {
				return false, st
			}
		}
		m[pre+"*"] = in.Group
		for k, v := range m {
			if !strings.HasPrefix(k, "I|") {
				continue
			}
			p := strings.Split(v, "|")
			if p[0] == "R" && p[1] == in.Group {
				m[pre+k[2:]] = p[2]
			}
		}
		return true, unparse(m)
	case "pe-flag":
		if _, ok := m[fmt.Sprintf("S%d|*", in.Client)]; !ok {
			return false, st
		}
		gk := fmt.Sprintf("G%d|%s", in.Client, in.Id)
		if _, done := m[gk]; done {
			return false, st
		}
		if _, dis := m["D|"+in.Id]; dis {
			m[gk] = "off"
		} else {
			m[gk] = "on"
		}
		return true, unparse(m)
	case "pe-emit":
		pre := fmt.Sprintf("S%d|", in.Client)
		gpre := fmt.Sprintf("G%d|", in.Client)
		if _, ok := m[pre+"*"]; !ok {
			return false, st
		}
		res := []string{}
		for k, v := range m {
			if strings.HasPrefix(k, pre) && k != pre+"*" {
				id := k[len(pre):]
				f, read := m[gpre+id]
				if !read {
					return false, st
				}
				if f == "on" {
					res = append(res, v)
				}
			}
		}
		sort.Strings(res)
		for k := range m {
			if strings.HasPrefix(k, pre) || strings.HasPrefix(k, gpre) {
				delete(m, k)
			}
		}
		return out == strings.Join(res, ","), unparse(m)
	}
	return false, st
}

var model = porcupine.Model{
	Init:              func() interface{} { return "" },
	Step:              step,
	DescribeOperation: func(i, o interface{}) string { return fmt.Sprintf("%+v -> %s", i, o) },
}

// ---- executing operations on the real location ----
func exec(ctx *core.Context, loc *core.Location, in In) string {
	switch in.Op {
	case "addFact":
		_, err := loc.AddFact(ctx, in.Id, core.Map{"g": in.Group, "t": in.Tag})
		if err != nil {
			return "ERR:" + err.Error()
		}
		return "ok"
	case "remFact":
		_, err := loc.RemFact(ctx, in.Id)
		if err != nil {
			return "ERR:" + err.Error()
		}
		return "ok"
	case "getFact":
		f, err := loc.GetFact(ctx, in.Id)
		if err != nil {
			if _, nf := err.(*core.NotFoundError); nf {
				return "notfound"
			}
			return "ERR:" + err.Error()
		}
		if r, isRule := f["rule"]; isRule {
			rm, _ := r.(map[string]interface{})
			acts, _ := rm["action"].(map[string]interface{})
			return "R:" + strings.Trim(fmt.Sprint(acts["code"]), "'")
		}
		return "F:" + fmt.Sprint(f["t"])
	case "search":
		sr, err := loc.SearchFacts(ctx, core.Map{"g": in.Group, "t": "?t"}, false)
		if err != nil {
			return "ERR:" + err.Error()
		}
		res := []string{}
		for _, f := range sr.Found {
			for _, b := range f.Bindingss {
				res = append(res, f.Id+"="+fmt.Sprint(b["?t"]))
			}
		}
		sort.Strings(res)
		return strings.Join(res, ",")
	case "addRule":
		_, err := loc.AddRule(ctx, in.Id, core.Map{"when": map[string]interface{}{"pattern": map[string]interface{}{"e": in.Group, "n": "?n"}}, "action": map[string]interface{}{"code": "'" + in.Tag + "'"}})
		if err != nil {
			return "ERR:" + err.Error()
		}
		return "ok"
	case "remRule":
		_, err := loc.RemRule(ctx, in.Id)
		if err != nil {
			return "ERR:" + err.Error()
		}
		return "ok"
	case "enable":
		if err := loc.EnableRule(ctx, in.Id, in.On); err != nil {
			return "ERR:" + err.Error()
		}
		return "ok"
	case "flag":
		en, err := loc.RuleEnabled(ctx, in.Id)
		if err != nil {
			return "ERR:" + err.Error()
		}
		if en {
			return "on"
		}
		return "off"
	case "event":
		fr, cond := loc.ProcessEvent(ctx, core.Map{"e": in.Group, "n": 1.0})
		if cond != nil {
			return "ERR:" + cond.Msg
		}
		res := []string{}
		for _, v := range fr.Values {
			res = append(res, fmt.Sprint(v))
		}
		for _, ch := range fr.Children {
			for _, d := range ch.Dispositions() {
				if d.Msg != "complete" {
					return "ERR:disp " + d.Msg
				}
			}
		}
		sort.Strings(res)
		return strings.Join(res, ",")
	}
	return "?"
}

var idspace = []string{"i0", "i1", "i2"}

func genOp(r *rand.Rand, family string, client, n int) In {
	id := idspace[r.Intn(3)]
	tag := fmt.Sprintf("c%d-%d", client, n)
	grp := fmt.Sprintf("g%d", r.Intn(2))
	in := In{Client: client}
	switch family {
	case "facts":
		switch r.Intn(6) {
		case 0, 1:
			in.Op, in.Id, in.Tag, in.Group = "addFact", id, tag, grp
		case 2:
			in.Op, in.Id = "remFact", id
		case 3:
			in.Op, in.Id = "getFact", id
		default:
			in.Op, in.Group = "search", grp
		}
	case "rules":
		switch r.Intn(6) {
		case 0, 1:
			in.Op, in.Id, in.Tag, in.Group = "addRule", id, tag, grp
		case 2:
			in.Op, in.Id = "remRule", id
		default:
			in.Op, in.Group = "event", grp
		}
	case "rules+enable":
		switch r.Intn(9) {
		case 0, 1:
			in.Op, in.Id, in.Tag, in.Group = "addRule", id, tag, grp
		case 2:
			in.Op, in.Id = "remRule", id
		case 3:
			in.Op, in.Id, in.On = "enable", id, false
		case 4:
			in.Op, in.Id, in.On = "enable", id, true
		case 5:
			in.Op, in.Id = "flag", id
		default:
			in.Op, in.Group = "event", grp
		}
	case "mixed":
		switch r.Intn(10) {
		case 0, 1:
			in.Op, in.Id, in.Tag, in.Group = "addFact", id, tag, grp
		case 2, 3:
			in.Op, in.Id, in.Tag, in.Group = "addRule", id, tag, grp
		case 4:
			in.Op, in.Id = "remFact", id
		case 5:
			in.Op, in.Id = "getFact", id
		case 6:
			in.Op, in.Group = "search", grp
		default:
			in.Op, in.Group = "event", grp
		}
	}
	return in
}

type rec struct {
	Client int    `json:"c"`
	In     In     `json:"in"`
	Call   int64  `json:"call_ns"`
	Out    string `json:"out"`
	Ret    int64  `json:"ret_ns"`
}

func toOps(h []rec, relaxed bool) []porcupine.Operation {
	var ops []porcupine.Operation
	for _, x := range h {
		if relaxed && x.In.Op == "event" {
			ops = append(ops, porcupine.Operation{ClientId: x.Client, Input: In{Op: "pe-snap", Client: x.Client, Group: x.In.Group}, Call: x.Call, Output: "", Return: x.Ret})
			for _, id := range idspace {
				ops = append(ops, porcupine.Operation{ClientId: x.Client, Input: In{Op: "pe-flag", Client: x.Client, Id: id}, Call: x.Call, Output: "", Return: x.Ret})
			}
			ops = append(ops, porcupine.Operation{ClientId: x.Client, Input: In{Op: "pe-emit", Client: x.Client}, Call: x.Call, Output: x.Out, Return: x.Ret})
			continue
		}
		ops = append(ops, porcupine.Operation{ClientId: x.Client, Input: x.In, Call: x.Call, Output: x.Out, Return: x.Ret})
	}
	return ops
}

func overlapped(h []rec) bool {
	for i := range h {
		for j := range h {
			if h[i].Client != h[j].Client && h[i].Call < h[j].Ret && h[j].Call < h[i].Ret {
				return true
			}
		}
	}
	return false
}

// crossRead: some read returned a value written by another client.
func crossRead(h []rec) bool {
	for _, x := range h {
		switch x.In.Op {
		case "getFact", "search", "event":
			for _, part := range strings.FieldsFunc(x.Out, func(r rune) bool { return r == ',' || r == '=' || r == ':' }) {
				var c, n int
				if k, _ := fmt.Sscanf(part, "c%d-%d", &c, &n); k == 2 && c != x.Client {
					return true
				}
			}
		}
	}
	return false
}

// clearVsWrites: Clear is a request like any other: while writers add facts and a
// clearer clears the location (on a storage whose Clear is slow), every write is either
// before or after each clear.  Oracle: at the end the live location and a location
// reloaded from storage hold the same items, writes acknowledged after the last clear
// returned are there, writes acknowledged before the last clear was called are gone.
func clearVsWrites(r *rep.Report, e rep.Env) {
	rounds := e.Pick(24, 160)
	for round := 0; round < rounds; round++ {
		kind := drv.Kinds[round%2]
		inner := drv.MustMem()
		w := vstore.New(inner)
		w.Slow = map[string]time.Duration{"Clear": time.Duration(500+250*(round%5)) * time.Microsecond}
		loc, err := drv.NewLoc("K", kind, w)
		if err != nil {
			r.Violate("", "cannot build location", nil)
			return
		}
		r.Journal(rep.J{"clear_vs_writes": round, "state": kind})
		type wr struct {
			Id        string `json:"id"`
			Call, Ret int64
			Err       string `json:"err,omitempty"`
		}
		var mu sync.Mutex
		var writes []wr
		var clears [][2]int64
		start := time.Now()
		var wg sync.WaitGroup
		gate := make(chan bool)
		for c := 0; c < 4; c++ {
			wg.Add(1)
			go func(c int) {
				defer wg.Done()
				<-gate
				for i := 0; i < 12; i++ {
					id := fmt.Sprintf("w%d-%d", c, i)
					call := time.Since(start).Nanoseconds()
					var err error
					if i%4 == 3 {
						_, err = loc.AddRule(drv.Ctx(), id, core.Map{"when": map[string]interface{}{"pattern": map[string]interface{}{"e": id}}, "action": map[string]interface{}{"code": "1"}})
					} else {
						_, err = loc.AddFact(drv.Ctx(), id, core.Map{"by": fmt.Sprint(c), "n": float64(i)})
					}
					ret := time.Since(start).Nanoseconds()
					mu.Lock()
					writes = append(writes, wr{id, call, ret, drv.ErrStr(err)})
					mu.Unlock()
					time.Sleep(time.Duration(50*(1+(c+i)%4)) * time.Microsecond)
				}
			}(c)
		}
		wg.Add(1)
		go func() {
			defer wg.Done()
			<-gate
			for i := 0; i < 3; i++ {
				time.Sleep(400 * time.Microsecond)
				call := time.Since(start).Nanoseconds()
				err := loc.Clear(drv.Ctx())
				ret := time.Since(start).Nanoseconds()
				if err != nil {
					r.Violate("", "Clear failed: "+err.Error(), nil)
				}
				mu.Lock()
				clears = append(clears, [2]int64{call, ret})
				mu.Unlock()
			}
		}()
		done := make(chan struct{})
		go func() { close(gate); wg.Wait(); close(done) }()
		select {
		case <-done:
		case <-time.After(60 * time.Second):
			r.Violate("", "writers and clearer did not finish within 60 s (deadlock?)", rep.J{"state": kind})
			return
		}
		loc2, err := drv.NewLoc("K", kind, vstore.MemFrom(vstore.CopyState(inner.State(drv.Ctx()))))
		if err != nil {
			r.Violate("", "reload failed: "+err.Error(), rep.J{"state": kind})
			continue
		}
		lastClear := clears[len(clears)-1]
		overlapped := 0
		for _, x := range writes {
			live, errL := loc.GetFact(drv.Ctx(), x.Id)
			re, errR := loc2.GetFact(drv.Ctx(), x.Id)
			inLive, inRe := errL == nil, errR == nil
			for _, c := range clears {
				if x.Call < c[1] && c[0] < x.Ret {
					overlapped++
				}
			}
			r.Case(true, fmt.Sprint("clearvs", e.BatchSeed(), round, x.Id))
			wit := rep.J{"state": kind, "write": x, "clears": clears, "in_live": inLive, "in_reloaded": inRe, "slow_clear_us": w.Slow["Clear"].Microseconds()}
			if x.Err != "" {
				r.Violate("", "a write failed while the location was being cleared: "+x.Err, wit)
				continue
			}
			if inLive != inRe || (inLive && ref.Canon(map[string]interface{}(live)) != ref.Canon(map[string]interface{}(re))) {
				r.Violate("", "after concurrent writes and clears the live location and the location reloaded from storage differ", wit)
				continue
			}
			if x.Call > lastClear[1] && !inLive {
				r.Violate("", "a write acknowledged after the last Clear had returned is gone", wit)
			}
			if x.Ret < lastClear[0] && inLive {
				r.Violate("", "a write acknowledged before the last Clear was called survived it", wit)
			}
		}
		r.Count("clear_vs_write_rounds", 1)
		r.Count("writes_overlapping_a_clear", overlapped)
	}
}

// searchVsAdds: ids with a past (added, overwritten with other content, removed) are added
// again while other clients search for the content being added.  Every request succeeds; after
// all have returned, a search (live and reloaded) must find exactly the acknowledged facts:
// that is what any sequential order of the requests gives.
func searchVsAdds(r *rep.Report, e rep.Env) {
	rounds := e.Pick(12, 80)
	for round := 0; round < rounds; round++ {
		kind := drv.Kinds[round%2]
		store := drv.MustMem()
		loc, err := drv.NewLoc("S", kind, store)
		if err != nil {
			r.Violate("", "cannot build location", nil)
			return
		}
		const n = 120
		ctx := drv.Ctx()
		for i := 0; i < n; i++ {
			id := fmt.Sprintf("s%d", i)
			loc.AddFact(ctx, id, core.Map{"grp": "T", "n": float64(i)})
			loc.AddFact(ctx, id, core.Map{"keep": "k", "n": float64(i)}) // lacks the terms grp and T
			if i%3 != 2 {
				loc.RemFact(ctx, id)
			}
		}
		r.Journal(rep.J{"search_vs_adds": round, "state": kind})
		var wg sync.WaitGroup
		stop := make(chan bool)
		gate := make(chan bool)
		var searchErrs, addErrs int64
		for sc := 0; sc < 3; sc++ {
			wg.Add(1)
			go func() {
				defer wg.Done()
				<-gate
				for {
					select {
					case <-stop:
						return
					default:
					}
					if _, err := loc.SearchFacts(drv.Ctx(), core.Map{"grp": "T"}, false); err != nil {
						atomic.AddInt64(&searchErrs, 1)
					}
				}
			}()
		}
		var awg sync.WaitGroup
		for ac := 0; ac < 3; ac++ {
			awg.Add(1)
			go func(ac int) {
				defer awg.Done()
				<-gate
				for i := ac; i < n; i += 3 {
					if _, err := loc.AddFact(drv.Ctx(), fmt.Sprintf("s%d", i), core.Map{"grp": "T", "n": float64(i), "again": true}); err != nil {
						atomic.AddInt64(&addErrs, 1)
					}
				}
			}(ac)
		}
		close(gate)
		awg.Wait()
		close(stop)
		wg.Wait()
		loc2, err := drv.NewLoc("S", kind, vstore.MemFrom(vstore.CopyState(store.State(drv.Ctx()))))
		if err != nil {
			r.Violate("", "reload failed: "+err.Error(), rep.J{"state": kind})
			continue
		}
		count := func(l *core.Location) (int, []string) {
			srs, err := l.SearchFacts(drv.Ctx(), core.Map{"grp": "T"}, false)
			if err != nil {
				return -1, nil
			}
			have := map[string]bool{}
			for _, f := range srs.Found {
				have[f.Id] = true
			}
			var missing []string
			for i := 0; i < n; i++ {
				if !have[fmt.Sprintf("s%d", i)] {
					missing = append(missing, fmt.Sprintf("s%d", i))
				}
			}
			return len(srs.Found), missing
		}
		nl, missL := count(loc)
		nr, missR := count(loc2)
		r.Case(true, fmt.Sprint("searchvsadds", e.BatchSeed(), round))
		r.Count("search_vs_adds_rounds", 1)
		wit := rep.J{"state": kind, "acknowledged_adds": n, "found_live": nl, "found_reloaded": nr, "missing_live": missL, "missing_reloaded": missR, "search_errors": searchErrs, "add_errors": addErrs}
		if searchErrs > 0 || addErrs > 0 {
			r.Violate("", "requests failed while searches and adds ran concurrently", wit)
			continue
		}
		if nl != n || nr != n {
			r.Violate("", "after concurrent searches and adds a search does not find every acknowledged fact (live vs reloaded in the witness)", wit)
		}
	}
}

// expiringItems: items with an expiry are read by several clients at once: rules that carry an
// (unexpired) expiry are dispatched and fetched concurrently, and facts whose expiry has passed
// are searched and fetched concurrently (the first reader purges them).  Oracle: the race
// detector and the process staying alive, no request error, and afterwards expired items are
// gone and the others complete, live and reloaded.
func expiringItems(r *rep.Report, e rep.Env) {
	rounds := e.Pick(2, 8)
	for round := 0; round < rounds; round++ {
		for _, kind := range drv.Kinds {
			store := drv.MustMem()
			loc, err := drv.NewLoc("X", kind, store)
			if err != nil {
				r.Violate("", "cannot build location", nil)
				return
			}
			ctx := drv.Ctx()
			for i := 0; i < 6; i++ {
				loc.AddRule(ctx, fmt.Sprintf("xr%d", i), core.Map{"when": map[string]interface{}{"pattern": map[string]interface{}{"x": "go"}}, "action": map[string]interface{}{"code": "1"}, "expires": float64(4102444800 + i)})
			}
			for i := 0; i < 40; i++ {
				loc.AddFact(ctx, fmt.Sprintf("short%d", i), core.Map{"k": "short", "n": float64(i), "ttl": 1.0})
				loc.AddFact(ctx, fmt.Sprintf("long%d", i), core.Map{"k": "long", "n": float64(i)})
			}
			duels := e.Pick(300, 800) // (the location takes 1000 items)
			for i := 0; i < duels; i++ {
				loc.AddFact(ctx, fmt.Sprintf("duel%d", i), core.Map{"k": "duel", "ttl": 1.0})
			}
			time.Sleep(2100 * time.Millisecond)
			r.Journal(rep.J{"expiring_items": round, "state": kind})
			var wg sync.WaitGroup
			var errs int64
			var firstErr atomic.Value
			gate := make(chan bool)
			note := func(err error) {
				if err != nil {
					atomic.AddInt64(&errs, 1)
					firstErr.Store(err.Error())
				}
			}
			for c := 0; c < 6; c++ {
				wg.Add(1)
				go func(c int) {
					defer wg.Done()
					<-gate
					for i := 0; i < 12; i++ {
						switch (c + i) % 4 {
						case 0:
							_, cond := loc.ProcessEvent(drv.Ctx(), core.Map{"x": "go"})
							if cond != nil {
								note(fmt.Errorf("%s", cond.Msg))
							}
						case 1:
							_, err := loc.GetRule(drv.Ctx(), fmt.Sprintf("xr%d", i%6))
							note(err)
						case 2:
							_, err := loc.SearchFacts(drv.Ctx(), core.Map{"k": "short"}, false)
							note(err)
						default:
							if _, err := loc.GetFact(drv.Ctx(), fmt.Sprintf("short%d", (c*7+i)%40)); err != nil {
								if _, nf := err.(*core.NotFoundError); !nf {
									note(err)
								}
							}
						}
					}
				}(c)
			}
			close(gate)
			wg.Wait()
			// duels: for each expired id that nobody has looked at yet, two readers fetch it at the very moment
			// a writer puts a new, never-expiring fact under it; the acknowledged new fact must stay
			var renewed int64
			for i := 0; i < duels; i++ {
				id := fmt.Sprintf("duel%d", i)
				var dw sync.WaitGroup
				start := make(chan bool)
				for g := 0; g < 2; g++ {
					dw.Add(1)
					go func() {
						defer dw.Done()
						<-start
						if _, err := loc.GetFact(drv.Ctx(), id); err != nil {
							if _, nf := err.(*core.NotFoundError); !nf {
								note(err)
							}
						}
					}()
				}
				dw.Add(1)
				go func() {
					defer dw.Done()
					<-start
					if _, err := loc.AddFact(drv.Ctx(), id, core.Map{"k": "renewed"}); err != nil {
						note(err)
					} else {
						atomic.AddInt64(&renewed, 1)
					}
				}()
				close(start)
				dw.Wait()
			}
			loc2, rerr := drv.NewLoc("X", kind, vstore.MemFrom(vstore.CopyState(store.State(drv.Ctx()))))
			r.Case(true, fmt.Sprint("expiring", e.BatchSeed(), round, kind))
			r.Count("expiring_item_rounds", 1)
			wit := rep.J{"state": kind, "request_errors": errs, "an_error": firstErr.Load()}
			if errs > 0 {
				r.Violate("", "requests failed while several clients read items with an expiry", wit)
				continue
			}
			if rerr != nil {
				r.Violate("", "reload failed: "+rerr.Error(), wit)
				continue
			}
			for name, l := range map[string]*core.Location{"live": loc, "reloaded": loc2} {
				shorts, _ := l.SearchFacts(drv.Ctx(), core.Map{"k": "short"}, false)
				longs, _ := l.SearchFacts(drv.Ctx(), core.Map{"k": "long"}, false)
				rules, _ := l.ListRules(drv.Ctx(), false)
				again, _ := l.SearchFacts(drv.Ctx(), core.Map{"k": "renewed"}, false)
				if shorts == nil || longs == nil || again == nil || len(shorts.Found) != 0 || len(longs.Found) != 40 || len(rules) != 6 || int64(len(again.Found)) != renewed {
					wit["view"] = name
					if shorts != nil && longs != nil && again != nil {
						wit["expired_found"], wit["unexpired_found"], wit["rules"] = len(shorts.Found), len(longs.Found), len(rules)
						wit["renewed_acknowledged"], wit["renewed_found"] = renewed, len(again.Found)
					}
					r.Violate("", "after concurrent reads of expiring items the location does not hold exactly the unexpired ones", wit)
				}
			}
		}
	}
}

// remRuleDuels: one client removes rule r while another adds r again and then disables it (both
// acknowledged, in that order).  Whatever the order of the three requests, a rule r that exists in
// the end is disabled: "exists and is enabled" is explained by no order.
func remRuleDuels(r *rep.Report, e rep.Env) {
	for _, kind := range drv.Kinds {
		loc, err := drv.NewLoc("D", kind, drv.MustMem())
		if err != nil {
			r.Violate("", "cannot build location", nil)
			return
		}
		rule := func() core.Map {
			return core.Map{"when": map[string]interface{}{"pattern": map[string]interface{}{"d": "go"}}, "action": map[string]interface{}{"code": "1"}}
		}
		n := e.Pick(3000, 20000)
		bad := 0
		var first rep.J
		for i := 0; i < n; i++ {
			loc.AddRule(drv.Ctx(), "r", rule())
			loc.EnableRule(drv.Ctx(), "r", true)
			var wg sync.WaitGroup
			start := make(chan bool)
			var remErr, addErr, disErr error
			wg.Add(2)
			go func() { defer wg.Done(); <-start; _, remErr = loc.RemRule(drv.Ctx(), "r") }()
			go func() {
				defer wg.Done()
				<-start
				_, addErr = loc.AddRule(drv.Ctx(), "r", rule())
				disErr = loc.EnableRule(drv.Ctx(), "r", false)
			}()
			close(start)
			wg.Wait()
			_, gerr := loc.GetRule(drv.Ctx(), "r")
			enabled, _ := loc.RuleEnabled(drv.Ctx(), "r")
			if remErr == nil && addErr == nil && disErr == nil && gerr == nil && enabled {
				bad++
				if first == nil {
					first = rep.J{"state": kind, "round": i, "rule_exists": true, "rule_enabled": true}
				}
			}
			loc.RemRule(drv.Ctx(), "r")
		}
		r.Case(true, "rem-rule-duels"+kind)
		r.Count("rem_rule_duels", n)
		if bad > 0 {
			first["rounds"], first["rounds_with_this_outcome"] = n, bad
			r.Violate("", "RemRule(r) against AddRule(r) followed by EnableRule(r, false): in the end r exists and is enabled, which no order of the three acknowledged requests explains (the removal took the rule first and, later, the new rule's disabled flag)", first)
		}
	}
}

// renderedEvents: event requests to ONE location through the HTTP service, which renders each
// request's work tree (the dispatched rules included) as JSON while the other requests do the
// same.  Every answer must be the one a lone request gets; the race detector watches the rest.
func renderedEvents(r *rep.Report, e rep.Env) {
	for _, linear := range []bool{false, true} {
		s, err := drv.NewSys(drv.SysOpts{Linear: linear, TTL: sys.Forever}, cronner.New(true))
		if err != nil {
			r.Violate("", "cannot build system: "+err.Error(), nil)
			return
		}
		h, err := service.NewHTTPService(drv.Ctx(), &service.Service{System: s})
		if err != nil {
			r.Violate("", "cannot build service: "+err.Error(), nil)
			return
		}
		srv := httptest.NewServer(h)
		ctx := drv.Ctx()
		s.AddRule(ctx, "R", "one", `{"when":{"pattern":{"e":"?x"}},"action":{"code":"'one:' + x"}}`)
		s.AddRule(ctx, "R", "two", `{"when":{"pattern":{"e":"?x"}},"actions":[{"code":"'two:' + x"}],"expires":4102444800}`)
		const clients, per = 6, 25
		bad := make([]string, clients)
		var wg sync.WaitGroup
		gate := make(chan struct{})
		for c := 0; c < clients; c++ {
			wg.Add(1)
			go func(c int) {
				defer wg.Done()
				cl := &http.Client{Timeout: 30 * time.Second}
				<-gate
				for i := 0; i < per; i++ {
					v := fmt.Sprintf("c%d-%d", c, i)
					body := fmt.Sprintf(`{"location":"R","event":{"e":%q}}`, v)
					resp, err := cl.Post(srv.URL+"/api/loc/events/ingest", "application/json", strings.NewReader(body))
					if err != nil {
						bad[c] = "transport: " + err.Error()
						return
					}
					b, _ := ioutil.ReadAll(resp.Body)
					resp.Body.Close()
					if resp.StatusCode != 200 || !strings.Contains(string(b), `"one:`+v+`"`) || !strings.Contains(string(b), `"two:`+v+`"`) {
						bad[c] = fmt.Sprintf("event %s answered %d %s", v, resp.StatusCode, string(b))
						if len(bad[c]) > 600 {
							bad[c] = bad[c][:600]
						}
						return
					}
				}
			}(c)
		}
		close(gate)
		wg.Wait()
		srv.Close()
		for c := 0; c < clients; c++ {
			r.Case(true, fmt.Sprint("rendered-events", linear, c))
			r.Count("rendered_event_requests", per)
			if bad[c] != "" {
				r.Violate("", "an event request to a location that other clients send events to at the same time was not answered as a lone request is", rep.J{"linear": linear, "client": c, "answer": bad[c]})
			}
		}
	}
}

func main() {
	e := rep.GetEnv()
	r := rep.New(e)
	if e.Batch == 0 {
		r.WritePartial()
		expiringItems(r, e)
		renderedEvents(r, e)
	}
	if e.Batch == 1 {
		remRuleDuels(r, e)
	}
	clearVsWrites(r, e)
	searchVsAdds(r, e)
	nHist := e.Pick(240, 1500)
	rng := rand.New(rand.NewSource(e.BatchSeed()))
	families := []string{"facts", "rules", "rules+enable", "mixed"}
	start := time.Now()
	r.Note("hooks_compiled_in", hook.Enabled())
	traces := map[uint64]bool{}
	for h := 0; h < nHist; h++ {
		family := families[h%4]
		kind := drv.Kinds[(h/4)%2]
		store := drv.MustMem()
		hooked = (h/8)%2 == 1
		var loc *core.Location
		var err error
		if hooked {
			// the state gets the hooks the System gives every location (they run inside Add and Rem)
			hctx := drv.Ctx()
			var st core.State
			st, err = drv.NewState(hctx, kind, "L", store)
			if err == nil {
				err = cron.AddHooks(hctx, cronner.New(true), st)
			}
			if err == nil {
				loc, err = core.NewLocation(hctx, "L", st, nil)
			}
		} else {
			loc, err = drv.NewLoc("L", kind, store)
		}
		if err != nil {
			r.Violate("", "cannot build location", nil)
			break
		}
		nclients := 2 + rng.Intn(e.Pick(3, 4))
		nops := 3 + rng.Intn(e.Pick(4, 5))
		plans := make([][]In, nclients)
		for c := range plans {
			for n := 0; n < nops; n++ {
				plans[c] = append(plans[c], genOp(rng, family, c, n))
			}
		}
		r.Journal(rep.J{"history": h, "family": family, "state": kind, "plans": plans})
		if h%3 != 2 {
			hook.Delays(e.BatchSeed()+int64(h), 0.35, 1500*time.Microsecond)
		} else {
			hook.Off()
		}
		hook.StartTrace()
		var mu sync.Mutex
		var hist []rec
		var wg sync.WaitGroup
		gate := make(chan bool)
		for c := 0; c < nclients; c++ {
			wg.Add(1)
			go func(c int) {
				defer wg.Done()
				<-gate
				for _, in := range plans[c] {
					ctx := drv.Ctx()
					call := time.Since(start).Nanoseconds()
					out := exec(ctx, loc, in)
					ret := time.Since(start).Nanoseconds()
					mu.Lock()
					hist = append(hist, rec{c, in, call, out, ret})
					mu.Unlock()
				}
			}(c)
		}
		done := make(chan struct{})
		go func() { close(gate); wg.Wait(); close(done) }()
		select {
		case <-done:
		case <-time.After(120 * time.Second):
			mu.Lock()
			recorded := append([]rec{}, hist...)
			mu.Unlock()
			r.Violate("", "clients did not finish within 120 s (deadlock?)", rep.J{"family": family, "state": kind, "plans": plans, "recorded": recorded})
			r.Write()
			os.Exit(0)
		}
		hook.Off()
		th, tl := hook.StopTrace()
		if tl > 0 {
			traces[th] = true
		}
		// final reads: live, then reloaded
		final := func(l *core.Location, client int) {
			for _, id := range idspace {
				for _, op := range []string{"getFact", "flag"} {
					if op == "flag" && family != "rules+enable" {
						continue
					}
					in := In{Op: op, Id: id, Client: client}
					call := time.Since(start).Nanoseconds()
					out := exec(drv.Ctx(), l, in)
					ret := time.Since(start).Nanoseconds()
					hist = append(hist, rec{client, in, call, out, ret})
				}
			}
		}
		final(loc, nclients)
		loc2, err := drv.NewLoc("L", kind, store)
		if err != nil {
			r.Violate("", "reload failed: "+err.Error(), rep.J{"family": family, "state": kind, "history": hist})
			continue
		}
		final(loc2, nclients+1)

		nontrivial := overlapped(hist) && crossRead(hist)
		r.Case(nontrivial, fmt.Sprint(e.BatchSeed(), h))
		r.Count("events_logged", len(hist))
		if overlapped(hist) {
			r.Count("histories_with_overlap", 1)
		}
		res, _ := porcupine.CheckOperationsVerbose(model, toOps(hist, false), 10*time.Second)
		sort.Slice(hist, func(i, j int) bool { return hist[i].Call < hist[j].Call })
		wit := rep.J{"family": family, "state": kind, "clients": nclients, "history": hist}
		switch res {
		case porcupine.Ok:
			r.Count("histories_linearizable", 1)
			if nontrivial && r.WantSample() {
				r.Sample(rep.J{"family": family, "state": kind, "clients": nclients, "operations": len(hist), "verdict": "linearizable", "history_head": hist[:min(8, len(hist))]})
			}
		case porcupine.Unknown:
			r.Inconclusive("porcupine timeout")
		case porcupine.Illegal:
			hasErr := false
			for _, x := range hist {
				if strings.HasPrefix(x.Out, "ERR:") {
					if hooked && strings.Contains(x.Out, "not found") {
						continue // the hooks' answer for an absent id; the models know it
					}
					hasErr = true
					wit["error_output"] = x.Out
				}
			}
			if hasErr {
				r.Violate("", "an operation failed under concurrency: "+fmt.Sprint(wit["error_output"]), wit)
				continue
			}
			if family == "rules+enable" {
				res2, _ := porcupine.CheckOperationsVerbose(model, toOps(hist, true), 10*time.Second)
				if res2 == porcupine.Ok {
					r.Violate("c12.pe-two-instant", "history is not linearizable under the strict model but is under the model in which ProcessEvent reads the rule set and the enabled flags at two instants", wit)
					continue
				}
				if res2 == porcupine.Unknown {
					r.Inconclusive("porcupine timeout (relaxed model)")
					continue
				}
			}
			r.Violate("", "history is not linearizable: no sequential order of the requests that respects real time explains the results (including the final live and reloaded reads)", wit)
		}
	}
	r.Note("distinct_hook_traces", len(traces))
	r.Note("hook_hits", hook.Hits())
	r.Write()
	fmt.Fprintf(os.Stderr, "c12 batch %d: %d histories\n", e.Batch, r.Evaluations)
}

func min(a, b int) int {
	if a < b {
		return a
	}
	return b
}
