// Monitor for C06: acknowledged changes are durable; reload reproduces the
// live location.  Fault enumeration over generated histories:
//   1. reload equivalence after every prefix (fresh location over a copy of
//      the storage must be observationally identical to the live one, and the
//      stored form of an expiring item must carry its absolute expiry);
//   2. crash points: for EVERY storage write of the history the location is
//      rebuilt from the storage as it was right after that write (memory:
//      deep snapshot; bolt: the process is SIGKILLed right after the write and
//      the file reopened); per id the value must be the one before or after
//      the interrupted operation;
//   3. fault sequences: for EVERY storage call of the history, a re-run with
//      that call failing must make the issuing operation return an error;
//   4. aliasing canary for pairs handed out by Load (bolt: own sub-child).
// Stages: mem | bolt.  Sub-children of the bolt stage: C06_SUB=crash|alias.
package main

import (
	"encoding/json"
	"fmt"
	"io/ioutil"
	"os"
	"os/exec"
	"path/filepath"
	"sort"
	"strconv"
	"strings"
	"time"

	"github.com/Comcast/rulio/core"
	"github.com/Comcast/rulio/storage/bolt"

	"verif/lib/drv"
	"verif/lib/gen"
	"verif/lib/ref"
	"verif/lib/rep"
	"verif/lib/store"
)

type op struct {
	Op      string                 `json:"op"`
	Id      string                 `json:"id,omitempty"`
	Fact    map[string]interface{} `json:"fact,omitempty"`
	On      bool                   `json:"on,omitempty"`
	Parents []string               `json:"parents,omitempty"`
	Err     string                 `json:"err,omitempty"`
}

var ids = []string{"f1", "f2", "f3", "r1", "r2"}
var known = []string{"f1", "f2", "f3", "r1", "r2", "!r1.disabled", "!r2.disabled", "!f1.disabled", "!.parents"}

const future = 4102444800 // 2100-01-01

func genHistory(g *gen.Gen, n int, timed bool) []op {
	var h []op
	for len(h) < n {
		o := op{Id: ids[g.Intn(len(ids))]}
		switch k := g.Intn(22); {
		case k < 8:
			o.Op = "addFact"
			o.Fact = map[string]interface{}{"a": gen.Strs[g.Intn(4)], "k": "v"}
			switch g.Intn(8) {
			case 0:
				if timed {
					o.Fact["ttl"] = 100000.0
				}
			case 1:
				if timed {
					o.Fact["ttl"] = "30h"
				}
			case 2:
				o.Fact["expires"] = float64(future + g.Intn(1000))
			case 3:
				o.Fact["expires"] = "2100-01-01T00:00:00Z"
			case 4:
				o.Fact["deleteWith"] = []interface{}{ids[g.Intn(len(ids))]}
			}
		case k < 12:
			o.Op = "addRule"
			o.Id = []string{"r1", "r2", "f3"}[g.Intn(3)]
			o.Fact = map[string]interface{}{"when": map[string]interface{}{"pattern": map[string]interface{}{"e": gen.Strs[g.Intn(3)]}}, "action": map[string]interface{}{"code": "1"}}
			if g.Intn(5) == 0 {
				// a replacement that indexed state refuses (the `when` holds an unsortable array), over
				// an id that may hold a fact or a rule: whatever was there stays, searchable as before
				o.Id = ids[g.Intn(len(ids))]
				o.Fact["when"] = map[string]interface{}{"pattern": map[string]interface{}{"q": []interface{}{"x", 1.0}}}
				break
			}
			switch g.Intn(5) {
			case 0:
				o.Fact["expires"] = float64(future + g.Intn(1000))
			case 1:
				o.Fact["deleteWith"] = []interface{}{ids[g.Intn(len(ids))]}
			case 2:
				if timed {
					o.Fact["ttl"] = "40h"
				}
			}
		case k < 15:
			o.Op = "remFact"
		case k < 17:
			o.Op = "remRule"
			o.Id = []string{"r1", "r2", "f3"}[g.Intn(3)]
		case k < 20:
			o.Op = "enable"
			o.Id = []string{"r1", "r2", "f1"}[g.Intn(3)]
			o.On = g.Intn(2) == 0
		case k < 21:
			o.Op = "setParents"
			if g.Intn(2) == 0 {
				o.Parents = []string{"up"}
			} else {
				o.Parents = []string{}
			}
		default:
			o.Op = "clear"
			if g.Intn(3) == 0 {
				o.Op = "delete" // the location's records are deleted; the location object stays in use
			}
		}
		h = append(h, o)
	}
	return h
}

func apply(loc *core.Location, o op) error {
	ctx := drv.Ctx()
	var err error
	switch o.Op {
	case "addFact":
		_, err = loc.AddFact(ctx, o.Id, core.Map(ref.CloneMap(o.Fact)))
	case "addRule":
		_, err = loc.AddRule(ctx, o.Id, core.Map(ref.CloneMap(o.Fact)))
	case "remFact":
		_, err = loc.RemFact(ctx, o.Id)
	case "remRule":
		_, err = loc.RemRule(ctx, o.Id)
	case "enable":
		err = loc.EnableRule(ctx, o.Id, o.On)
	case "setParents":
		_, err = loc.SetParents(ctx, o.Parents)
	case "clear":
		err = loc.Clear(ctx)
	case "delete":
		err = loc.Delete(ctx)
	}
	return err
}

// mutating reports whether the op changes at least one id in the live view.
func changed(a, b map[string]string) bool {
	for _, id := range known {
		if a[id] != b[id] {
			return true
		}
	}
	return false
}

var probePatterns = []core.Map{{"a": "?x"}, {"k": "v", "a": "s1"}, {"rule": "?r"}, {"deleteWith": []interface{}{"?d"}}}
var probeEvents = []core.Map{{"e": "s1"}, {"e": "s2"}, {"e": "x"}}

// observe returns the per-id view and the aggregate probes of a location.
func observe(loc *core.Location) (map[string]string, []string) {
	ctx := drv.Ctx()
	per := map[string]string{}
	for _, id := range known {
		f, err := loc.GetFact(ctx, id)
		if err != nil {
			if _, nf := err.(*core.NotFoundError); nf {
				per[id] = "<absent>"
			} else {
				per[id] = "ERR:" + err.Error()
			}
			continue
		}
		per[id] = ref.Canon(map[string]interface{}(f))
	}
	var agg []string
	for i, p := range probePatterns {
		srs, err := loc.SearchFacts(ctx, core.Map(ref.CloneMap(p)), false)
		if err != nil {
			agg = append(agg, fmt.Sprintf("search%d=ERR:%s", i, err.Error()))
		} else {
			agg = append(agg, fmt.Sprintf("search%d=%s", i, strings.Join(drv.NormSearch(srs), ";")))
		}
	}
	for i, ev := range probeEvents {
		fr := &core.FindRules{Event: ref.CloneMap(ev)}
		// dispatch without ancestors: a parent named "up" does not exist
		rs, err := loc.SearchRules(ctx, core.Map(ref.CloneMap(ev)), false)
		_ = fr
		if err != nil {
			agg = append(agg, fmt.Sprintf("dispatch%d=ERR:%s", i, err.Error()))
			continue
		}
		ks := []string{}
		for id := range rs {
			if en, _ := loc.RuleEnabled(ctx, id); en {
				ks = append(ks, id)
			}
		}
		sort.Strings(ks)
		agg = append(agg, fmt.Sprintf("dispatch%d=%s", i, strings.Join(ks, ",")))
	}
	rules, _ := loc.ListRules(ctx, false)
	sort.Strings(rules)
	agg = append(agg, "rules="+strings.Join(rules, ","))
	ps, _ := loc.GetParents(ctx)
	agg = append(agg, "parents="+strings.Join(ps, ","))
	n, _ := loc.StateSize(ctx)
	agg = append(agg, fmt.Sprintf("size=%d", n))
	return per, agg
}

func diff(a, b map[string]string) []string {
	var d []string
	for _, id := range known {
		if a[id] != b[id] {
			d = append(d, fmt.Sprintf("%s: live %s | reloaded %s", id, a[id], b[id]))
		}
	}
	return d
}

// storedFormProblems: every stored record of an expiring item must carry the
// absolute expiry the live item reports, and no relative ttl.
func storedFormProblems(content map[string]string, live map[string]string) []string {
	var out []string
	for id, js := range content {
		var m map[string]interface{}
		if json.Unmarshal([]byte(js), &m) != nil {
			continue
		}
		if _, has := m["ttl"]; has {
			out = append(out, fmt.Sprintf("%s is stored with a relative ttl: %s", id, js))
			continue
		}
		var lm map[string]interface{}
		if json.Unmarshal([]byte(live[id]), &lm) == nil {
			if le, ok := lm["expires"]; ok {
				if fmt.Sprint(m["expires"]) != fmt.Sprint(le) {
					out = append(out, fmt.Sprintf("%s: live item expires at %v, stored record says %v", id, le, m["expires"]))
				}
			}
		}
	}
	return out
}

// ---------------- memory stage ----------------
func memStage(r *rep.Report, e rep.Env) {
	nHist := e.Pick(40, 200)
	for hi := 0; hi < nHist; hi++ {
		g := gen.New(e.BatchSeed()*122949829 + int64(hi))
		hist := genHistory(g, 10+g.Intn(14), true)
		for _, kind := range drv.Kinds {
			r.Journal(rep.J{"stage": "mem", "state": kind, "history": hist})
			// ---- clean run with snapshots
			inner := drv.MustMem()
			w := store.New(inner).WithSnapshots().WithAliasCanary()
			loc, err := drv.NewLoc("D", kind, w)
			if err != nil {
				r.Violate("", "cannot build location: "+err.Error(), nil)
				continue
			}
			perAfter := []map[string]string{}
			per0, _ := observe(loc)
			perAfter = append(perAfter, per0) // index 0 = before op 0
			writeOp := []int{}                // write number (1-based) -> op index
			acked := []bool{}
			run := []op{}
			for oi, o := range hist {
				before := w.Writes
				err := apply(loc, o)
				o.Err = drv.ErrStr(err)
				run = append(run, o)
				acked = append(acked, err == nil)
				for k := before; k < w.Writes; k++ {
					writeOp = append(writeOp, oi)
				}
				per, agg := observe(loc)
				perAfter = append(perAfter, per)
				// 1. reload equivalence after this prefix
				content := store.CopyState(inner.State(nil))
				loc2, err2 := drv.NewLoc("D", kind, store.MemFrom(content))
				nontrivial := changed(perAfter[oi], per)
				r.Case(nontrivial, "reload"+kind+ref.Canon(run))
				r.Count("reload_points", 1)
				wit := rep.J{"check": "reload", "state": kind, "storage": "memory", "history": run}
				if err2 != nil {
					r.Violate(reloadKey(run), "a location cannot be rebuilt from its storage: "+err2.Error(), wit)
				} else {
					per2, agg2 := observe(loc2)
					if d := diff(per, per2); len(d) > 0 {
						wit["differences"] = d
						r.Violate(reloadKey(run), "the reloaded location differs from the live one (per id)", wit)
					} else if strings.Join(agg, "\n") != strings.Join(agg2, "\n") {
						wit["live"], wit["reloaded"] = agg, agg2
						r.Violate(reloadKey(run), "the reloaded location answers searches / dispatch differently from the live one", wit)
					} else if nontrivial && r.WantSample() {
						r.Sample(rep.J{"check": "reload", "state": kind, "storage": "memory", "history_len": len(run), "last_op": o, "ids": per})
					}
				}
				if p := storedFormProblems(content["D"], per); len(p) > 0 {
					wit["problems"] = p
					r.Violate(reloadKey(run), "the stored form of an expiring item does not carry its absolute expiry", wit)
				}
			}
			for _, f := range w.AliasFaults {
				r.Violate("", "data handed back by the storage changed under later writes: "+f, rep.J{"state": kind, "history": run})
			}
			// 2. crash points: every write
			for k, snapContent := range w.Snapshots {
				oi := writeOp[k]
				loc3, err := drv.NewLoc("D", kind, store.MemFrom(snapContent))
				nontrivial := changed(perAfter[oi], perAfter[oi+1])
				r.Case(nontrivial, fmt.Sprintf("crash%s%d|%s", kind, k, ref.Canon(hist)))
				r.Count("crash_points", 1)
				wit := rep.J{"check": "crash", "state": kind, "storage": "memory", "history": run, "crash_after_write": k + 1, "interrupted_op_index": oi, "interrupted_op": hist[oi]}
				if err != nil {
					r.Violate(reloadKey(run[:oi+1]), "after a crash the location cannot be rebuilt: "+err.Error(), wit)
					continue
				}
				per3, _ := observe(loc3)
				var bad []string
				for _, id := range known {
					if per3[id] != perAfter[oi][id] && per3[id] != perAfter[oi+1][id] {
						bad = append(bad, fmt.Sprintf("%s: after crash %s | before op %s | after op %s", id, per3[id], perAfter[oi][id], perAfter[oi+1][id]))
					}
				}
				if len(bad) > 0 {
					wit["ids"] = bad
					r.Violate(reloadKey(run[:oi+1]), "after a crash between two storage writes an id has neither its old nor its new value (an acknowledged operation is lost, or the interrupted operation touched another id)", wit)
				}
			}
			// 3. fault sequences: every storage call
			ncalls := w.NCalls()
			for c := 1; c <= ncalls; c++ {
				wf := store.New(drv.MustMem())
				wf.FailAt = c
				r.Count("fault_points", 1)
				locf, err := drv.NewLoc("D", kind, wf)
				if err != nil {
					// the failed call was the initial Load: building the location reports it
					r.Case(true, fmt.Sprintf("fault%s%d|%s", kind, c, ref.Canon(hist)))
					continue
				}
				hit := false
				for oi, o := range hist {
					err := apply(locf, o)
					failed := false
					for _, cl := range wf.CallsCopy() {
						if cl.Failed {
							failed = true
						}
					}
					if failed {
						hit = true
						r.Case(true, fmt.Sprintf("fault%s%d|%s", kind, c, ref.Canon(hist)))
						if err == nil {
							calls := wf.CallsCopy()
							r.Violate("", "the storage layer reported a failure but the operation reported success", rep.J{"check": "fault", "state": kind, "history": hist[:oi+1], "failed_call": calls[len(calls)-1], "failed_call_number": c})
							break
						}
						// the failed operation is not part of what was acknowledged: live location and
						// storage still tell the same story (whichever way the operation was undone)
						wf.FailAt = 0
						if ms, ok := wf.Inner.(*core.MemStorage); ok {
							perLive, aggLive := observe(locf)
							if locr, errr := drv.NewLoc("D", kind, store.MemFrom(store.CopyState(ms.State(nil)))); errr == nil {
								perRel, aggRel := observe(locr)
								r.Count("fault_points_compared_without_retry", 1)
								if d := diff(perLive, perRel); len(d) > 0 || strings.Join(aggLive, "\n") != strings.Join(aggRel, "\n") {
									calls := wf.CallsCopy()
									r.Violate("", "after an operation failed on a storage fault the live location and a location reloaded from storage differ (the failed operation was applied to one of them only)", rep.J{"check": "fault-no-retry", "state": kind, "history": hist[:oi+1], "failed_call": calls[len(calls)-1], "failed_call_number": c, "differences": d, "live_probes": aggLive, "reloaded_probes": aggRel})
								}
							}
						}
						// the client retries the operation (the fault is gone): once the retry is
						// acknowledged, it must be durable like any acknowledged operation
						r.Count("fault_retries", 1)
						if err2 := apply(locf, o); err2 == nil {
							perLive, _ := observe(locf)
							if ms, ok := wf.Inner.(*core.MemStorage); ok {
								locr, errr := drv.NewLoc("D", kind, store.MemFrom(store.CopyState(ms.State(nil))))
								if errr == nil {
									perRel, _ := observe(locr)
									if d := diff(perLive, perRel); len(d) > 0 {
										r.Violate("", "an operation that failed on a storage fault was retried and acknowledged, but the reloaded location differs from the live one (the retry never reached storage)", rep.J{"check": "fault-retry", "state": kind, "history": hist[:oi+1], "failed_call_number": c, "differences": d})
									}
								}
							}
						}
						break
					}
				}
				if !hit {
					r.Inconclusive("fault call not reached")
				}
			}
		}
	}
}

// reloadKey classifies reload differences against the (fixed) findings: none are open.
func reloadKey(run []op) string { return "" }

// ---------------- bolt stage ----------------
func boltLoc(path, kind string, wrap func(core.Storage) core.Storage) (*core.Location, *bolt.BoltStorage, error) {
	bs, err := bolt.NewStorage(drv.Ctx(), path)
	if err != nil {
		return nil, nil, err
	}
	var st core.Storage = bs
	if wrap != nil {
		st = wrap(bs)
	}
	loc, err := drv.NewLoc("D", kind, st)
	return loc, bs, err
}

func boltStage(r *rep.Report, e rep.Env) {
	nHist := e.Pick(8, 30)
	self := os.Getenv("VERIF_SELF")
	for hi := 0; hi < nHist; hi++ {
		seed := e.BatchSeed()*472882027 + int64(hi)
		g := gen.New(seed)
		n := 8 + g.Intn(10)
		hist := genHistory(g, n, false)
		for _, kind := range drv.Kinds {
			r.Journal(rep.J{"stage": "bolt", "state": kind, "history": hist})
			path := filepath.Join(e.Out, fmt.Sprintf("c06-%d-%d-%s.db", e.Batch, hi, kind))
			os.Remove(path)
			var w *store.Wrap
			loc, bs, err := boltLoc(path, kind, func(s core.Storage) core.Storage { w = store.New(s); return w })
			if err != nil {
				r.Violate("", "cannot open bolt storage: "+err.Error(), nil)
				continue
			}
			perAfter := []map[string]string{}
			per0, _ := observe(loc)
			perAfter = append(perAfter, per0)
			writeOp := []int{}
			run := []op{}
			for oi, o := range hist {
				before := w.Writes
				err := apply(loc, o)
				o.Err = drv.ErrStr(err)
				run = append(run, o)
				for k := before; k < w.Writes; k++ {
					writeOp = append(writeOp, oi)
				}
				per, agg := observe(loc)
				perAfter = append(perAfter, per)
				// reload equivalence on the same bolt file (a second handle in the same process is
				// not possible: bolt locks the file), so reload through the same storage object.
				loc2, err2 := drv.NewLoc("D", kind, bs)
				nontrivial := changed(perAfter[oi], per)
				r.Case(nontrivial, "reloadbolt"+kind+ref.Canon(run))
				r.Count("reload_points", 1)
				wit := rep.J{"check": "reload", "state": kind, "storage": "bolt", "history": run}
				if err2 != nil {
					r.Violate("", "a location cannot be rebuilt from its bolt storage: "+err2.Error(), wit)
					continue
				}
				per2, agg2 := observe(loc2)
				if d := diff(per, per2); len(d) > 0 {
					wit["differences"] = d
					r.Violate("", "the location reloaded from bolt differs from the live one (per id)", wit)
				} else if strings.Join(agg, "\n") != strings.Join(agg2, "\n") {
					wit["live"], wit["reloaded"] = agg, agg2
					r.Violate("", "the location reloaded from bolt answers searches / dispatch differently", wit)
				}
			}
			bs.Close(drv.Ctx())
			// crash points: kill a sub-child right after write k, reopen the file here
			nw := len(writeOp)
			points := []int{}
			if e.Thorough() || nw <= 4 {
				for k := 1; k <= nw; k++ {
					points = append(points, k)
				}
			} else {
				step := nw / 4
				for k := 1; k <= nw; k += step {
					points = append(points, k)
				}
			}
			for _, k := range points {
				cpath := filepath.Join(e.Out, fmt.Sprintf("c06-crash-%d-%d-%s-%d.db", e.Batch, hi, kind, k))
				os.Remove(cpath)
				cmd := exec.Command(self)
				cmd.Env = append(os.Environ(), "C06_SUB=crash", "C06_SEED="+strconv.FormatInt(seed, 10), "C06_N="+strconv.Itoa(n), "C06_KIND="+kind, "C06_PATH="+cpath, "C06_KILL="+strconv.Itoa(k))
				out, _ := cmd.CombinedOutput()
				killed := cmd.ProcessState != nil && !cmd.ProcessState.Exited()
				oi := writeOp[k-1]
				nontrivial := changed(perAfter[oi], perAfter[oi+1])
				r.Case(nontrivial, fmt.Sprintf("crashbolt%s%d|%s", kind, k, ref.Canon(hist)))
				wit := rep.J{"check": "crash", "state": kind, "storage": "bolt", "history": run, "crash_after_write": k, "interrupted_op_index": oi, "interrupted_op": hist[oi]}
				if !killed {
					r.Inconclusive("sub-child was not killed at the crash point: " + tail(string(out), 200))
					os.Remove(cpath)
					continue
				}
				r.Count("crash_points", 1)
				r.Count("bolt_kill_points", 1)
				loc3, bs3, err := boltLoc(cpath, kind, nil)
				if err != nil {
					r.Violate("", "after a crash the bolt file cannot be reopened / the location rebuilt: "+err.Error(), wit)
					os.Remove(cpath)
					continue
				}
				per3, _ := observe(loc3)
				var bad []string
				for _, id := range known {
					if per3[id] != perAfter[oi][id] && per3[id] != perAfter[oi+1][id] {
						bad = append(bad, fmt.Sprintf("%s: after crash %s | before op %s | after op %s", id, per3[id], perAfter[oi][id], perAfter[oi+1][id]))
					}
				}
				if len(bad) > 0 {
					wit["ids"] = bad
					r.Violate("", "after SIGKILL between two bolt writes an id has neither its old nor its new value", wit)
				} else if nontrivial && r.WantSample() {
					r.Sample(rep.J{"check": "crash", "state": kind, "storage": "bolt", "killed_after_write": k, "of_writes": nw, "interrupted_op": hist[oi], "ids_after_crash": per3})
				}
				bs3.Close(drv.Ctx())
				os.Remove(cpath)
			}
			os.Remove(path)
		}
	}
	// aliasing: data handed back by bolt's Load must stay intact while later writes proceed
	for _, kind := range drv.Kinds {
		apath := filepath.Join(e.Out, fmt.Sprintf("c06-alias-%d-%s.db", e.Batch, kind))
		os.Remove(apath)
		cmd := exec.Command(self)
		cmd.Env = append(os.Environ(), "C06_SUB=alias", "C06_KIND="+kind, "C06_PATH="+apath)
		out, err := cmd.CombinedOutput()
		r.Case(true, "alias"+kind)
		r.Count("bolt_alias_runs", 1)
		if err != nil || !strings.Contains(string(out), "ALIAS-OK") {
			r.Violate("", "reading data that bolt's Load handed back, after later writes, failed: "+sig(string(out)), rep.J{"check": "alias", "state": kind, "storage": "bolt", "output": tail(string(out), 3000)})
		}
		os.Remove(apath)
	}
}

func sig(out string) string {
	for _, l := range strings.Split(out, "\n") {
		if strings.Contains(l, "fatal error") || strings.Contains(l, "unexpected fault") || strings.Contains(l, "panic:") || strings.Contains(l, "ALIAS-BAD") {
			return l
		}
	}
	return tail(out, 200)
}

func tail(s string, n int) string {
	if len(s) > n {
		return s[len(s)-n:]
	}
	return s
}

func subCrash() {
	seed, _ := strconv.ParseInt(os.Getenv("C06_SEED"), 10, 64)
	n, _ := strconv.Atoi(os.Getenv("C06_N"))
	kill, _ := strconv.Atoi(os.Getenv("C06_KILL"))
	g := gen.New(seed)
	_ = 8 + g.Intn(10) // same draws as the parent
	hist := genHistory(g, n, false)
	loc, _, err := boltLoc(os.Getenv("C06_PATH"), os.Getenv("C06_KIND"), func(s core.Storage) core.Storage {
		w := store.New(s)
		w.KillAtWrite = kill
		return w
	})
	if err != nil {
		fmt.Println("sub: cannot open", err)
		os.Exit(3)
	}
	for _, o := range hist {
		apply(loc, o)
	}
	fmt.Println("sub: history finished without reaching write", kill)
	os.Exit(0)
}

func subAlias() {
	path, kind := os.Getenv("C06_PATH"), os.Getenv("C06_KIND")
	loc, bs, err := boltLoc(path, kind, nil)
	if err != nil {
		fmt.Println("ALIAS-BAD cannot open", err)
		os.Exit(3)
	}
	for i := 0; i < 20; i++ {
		loc.AddFact(drv.Ctx(), fmt.Sprintf("seed%d", i), core.Map{"a": "s1", "n": float64(i), "pad": strings.Repeat("p", 200)})
	}
	// reload: this location's state now holds whatever Load handed back
	loc2, err := drv.NewLoc("D", kind, bs)
	if err != nil {
		fmt.Println("ALIAS-BAD cannot reload", err)
		os.Exit(3)
	}
	want, _ := loc2.SearchFacts(drv.Ctx(), core.Map{"a": "s1"}, false)
	before := canonFound(want)
	// many later writes through the same storage (the file grows and is remapped)
	for i := 0; i < 3000; i++ {
		loc2.AddFact(drv.Ctx(), fmt.Sprintf("later%d", i), core.Map{"b": "x", "pad": strings.Repeat("q", 300)})
	}
	got, err := loc2.SearchFacts(drv.Ctx(), core.Map{"a": "s1"}, false)
	if err != nil {
		fmt.Println("ALIAS-BAD search failed", err)
		os.Exit(3)
	}
	if canonFound(got) != before {
		fmt.Println("ALIAS-BAD the facts loaded from bolt changed after later writes")
		os.Exit(3)
	}
	bs.Close(drv.Ctx())
	fmt.Println("ALIAS-OK")
}

func canonFound(srs *core.SearchResults) string {
	out := []string{}
	for _, f := range srs.Found {
		out = append(out, f.Id+"="+f.Js)
	}
	sort.Strings(out)
	return strings.Join(out, "\n")
}

func main() {
	switch os.Getenv("C06_SUB") {
	case "crash":
		subCrash()
		return
	case "alias":
		subAlias()
		return
	}
	e := rep.GetEnv()
	r := rep.New(e)
	start := time.Now()
	switch e.Stage {
	case "mem":
		memStage(r, e)
	case "bolt":
		boltStage(r, e)
	}
	files, _ := ioutil.ReadDir(e.Out)
	_ = files
	r.Note("wall", time.Since(start).String())
	r.Write()
	fmt.Fprintf(os.Stderr, "c06 %s batch %d: %d evaluations\n", e.Stage, e.Batch, r.Evaluations)
}
