// Monitor for C13: no input can crash, hang or poison a location.
// Grammar-based hostile documents are used as fact, rule, pattern, query and
// event through core.Location, sys.System and the HTTP service; every call
// runs under a watchdog with panic capture; a canary sequence follows each
// input.  Stage selected by VERIF_STAGE: loc | sys | http | sheens.
package main

import (
	"bytes"
	"encoding/json"
	"fmt"
	"io/ioutil"
	"net/http"
	"net/http/httptest"
	"os"
	"strings"
	"time"

	"github.com/Comcast/rulio/core"
	"github.com/Comcast/rulio/service"
	"github.com/Comcast/rulio/sys"

	"verif/lib/cronner"
	"verif/lib/drv"
	"verif/lib/gen"
	"verif/lib/ref"
	"verif/lib/rep"
)

const callLimit = 25 * time.Second

type call struct {
	Via   string      `json:"via"`
	State string      `json:"state,omitempty"`
	Op    string      `json:"op"`
	Id    string      `json:"id,omitempty"`
	Doc   interface{} `json:"doc,omitempty"`
	Raw   string      `json:"raw,omitempty"`
}

type target interface {
	// do performs the call; returns a short description of the result.
	do(c call) (string, error)
	// canary runs ordinary traffic; strict = the canary rule must fire.
	canary(n int, strict bool) error
	// cleanup removes every hostile item that was accepted; returns false if a removal failed.
	cleanup() bool
}

func js(x interface{}) string {
	b, _ := json.Marshal(x)
	return string(b)
}

// ---------- core.Location ----------
type locTarget struct {
	loc  *core.Location
	held map[string]bool
}

func newLocTarget(kind string) *locTarget {
	l, err := drv.NewLoc("H", kind, drv.MustMem())
	if err != nil {
		panic(err)
	}
	l.AddRule(drv.Ctx(), "canary-rule", core.Map{"when": map[string]interface{}{"pattern": map[string]interface{}{"canary!k": "go"}}, "action": map[string]interface{}{"code": "'canary-ok'"}})
	return &locTarget{l, map[string]bool{}}
}

func asMap(x interface{}) core.Map {
	m, _ := ref.Clone(x).(map[string]interface{})
	return core.Map(m)
}

func (t *locTarget) do(c call) (string, error) {
	ctx := drv.Ctx()
	switch c.Op {
	case "addFact":
		id, err := t.loc.AddFact(ctx, c.Id, asMap(c.Doc))
		if err == nil {
			t.held[id] = true
		}
		return id, err
	case "addRule":
		id, err := t.loc.AddRule(ctx, c.Id, asMap(c.Doc))
		if err == nil {
			t.held[id] = true
		}
		return id, err
	case "remFact":
		_, err := t.loc.RemFact(ctx, c.Id)
		delete(t.held, c.Id)
		return "", err
	case "getFact":
		_, err := t.loc.GetFact(ctx, c.Id)
		return "", err
	case "searchFacts":
		_, err := t.loc.SearchFacts(ctx, asMap(c.Doc), true)
		return "", err
	case "searchRules":
		_, err := t.loc.SearchRules(ctx, asMap(c.Doc), true)
		return "", err
	case "query":
		_, err := t.loc.Query(ctx, js(c.Doc))
		return "", err
	case "event":
		fr, cond := t.loc.ProcessEvent(ctx, asMap(c.Doc))
		if cond != nil {
			return "", fmt.Errorf("%s", cond.Msg)
		}
		if fr != nil {
			return fmt.Sprint(fr.Values), nil
		}
		return "", nil
	case "listRules":
		_, err := t.loc.ListRules(ctx, true)
		return "", err
	}
	return "", nil
}

func (t *locTarget) cleanup() bool {
	ok := true
	for id := range t.held {
		if _, err := t.loc.RemFact(drv.Ctx(), id); err != nil {
			ok = false
		}
		if _, err := t.loc.GetFact(drv.Ctx(), id); err == nil {
			ok = false
		}
		delete(t.held, id)
	}
	return ok
}

func (t *locTarget) canary(n int, strict bool) error {
	ctx := drv.Ctx()
	if _, err := t.loc.AddFact(ctx, "canary-fact", core.Map{"canaryn": float64(n)}); err != nil {
		return fmt.Errorf("canary AddFact: %v", err)
	}
	f, err := t.loc.GetFact(ctx, "canary-fact")
	if err != nil || fmt.Sprint(f["canaryn"]) != fmt.Sprint(float64(n)) {
		return fmt.Errorf("canary GetFact: %v %v", f, err)
	}
	fr, cond := t.loc.ProcessEvent(drv.Ctx(), core.Map{"canary!k": "go"})
	if strict {
		// a search that meets whatever else was stored under the canary's key
		srs, serr := t.loc.SearchFacts(ctx, core.Map{"canaryn": "?n"}, false)
		if serr != nil {
			return fmt.Errorf("canary search: %v", serr)
		}
		if !strings.Contains(strings.Join(drv.NormSearch(srs), ";"), "canary-fact") {
			return fmt.Errorf("canary search did not find the canary fact: %v", drv.NormSearch(srs))
		}
		if cond != nil {
			return fmt.Errorf("canary event: %s", cond.Msg)
		}
		ok := false
		for _, v := range fr.Values {
			if fmt.Sprint(v) == "canary-ok" {
				ok = true
			}
		}
		if !ok {
			return fmt.Errorf("canary rule did not fire (values %v)", fr.Values)
		}
	}
	return nil
}

// ---------- sys.System ----------
type sysTarget struct {
	s    *sys.System
	held map[string]bool
}

func newSysTarget(linear bool) *sysTarget { return newSysTargetTTL(linear, sys.Forever) }

// newSysTargetTTL: with sys.Never every request works on a location loaded from storage.
func newSysTargetTTL(linear bool, ttl time.Duration) *sysTarget {
	s, err := drv.NewSys(drv.SysOpts{Linear: linear, TTL: ttl}, cronner.New(true))
	if err != nil {
		panic(err)
	}
	s.AddRule(drv.Ctx(), "H", "canary-rule", `{"when":{"pattern":{"canary!k":"go"}},"action":{"code":"'canary-ok'"}}`)
	return &sysTarget{s, map[string]bool{}}
}

func (t *sysTarget) do(c call) (string, error) {
	ctx := drv.Ctx()
	doc := js(c.Doc)
	if c.Raw != "" {
		doc = c.Raw
	}
	switch c.Op {
	case "addFact":
		id, err := t.s.AddFact(ctx, "H", c.Id, doc)
		if err == nil {
			t.held[id] = true
		}
		return id, err
	case "addRule":
		id, err := t.s.AddRule(ctx, "H", c.Id, doc)
		if err == nil {
			t.held[id] = true
		}
		return id, err
	case "remFact":
		_, err := t.s.RemFact(ctx, "H", c.Id)
		delete(t.held, c.Id)
		return "", err
	case "getFact":
		_, err := t.s.GetFact(ctx, "H", c.Id)
		return "", err
	case "searchFacts":
		_, err := t.s.SearchFacts(ctx, "H", doc, true)
		return "", err
	case "searchRules":
		_, err := t.s.SearchRules(ctx, "H", doc, true)
		return "", err
	case "query":
		_, err := t.s.Query(ctx, "H", doc)
		return "", err
	case "event":
		fr, err := t.s.ProcessEvent(ctx, "H", doc)
		if err == nil && fr != nil {
			return fmt.Sprint(fr.Values), nil
		}
		return "", err
	case "listRules":
		_, err := t.s.ListRules(ctx, "H", true)
		return "", err
	}
	return "", nil
}

func (t *sysTarget) cleanup() bool {
	ok := true
	for id := range t.held {
		if _, err := t.s.RemFact(drv.Ctx(), "H", id); err != nil {
			ok = false
		}
		if _, err := t.s.GetFact(drv.Ctx(), "H", id); err == nil {
			ok = false
		}
		delete(t.held, id)
	}
	return ok
}

func (t *sysTarget) canary(n int, strict bool) error {
	ctx := drv.Ctx()
	if _, err := t.s.AddFact(ctx, "H", "canary-fact", fmt.Sprintf(`{"canaryn":%d}`, n)); err != nil {
		return fmt.Errorf("canary AddFact: %v", err)
	}
	f, err := t.s.GetFact(ctx, "H", "canary-fact")
	if err != nil || !strings.Contains(f, fmt.Sprintf(`"canaryn":%d`, n)) {
		return fmt.Errorf("canary GetFact: %v %v", f, err)
	}
	fr, err := t.s.ProcessEvent(drv.Ctx(), "H", `{"canary!k":"go"}`)
	if strict {
		srs, serr := t.s.SearchFacts(ctx, "H", `{"canaryn":"?n"}`, false)
		if serr != nil {
			return fmt.Errorf("canary search: %v", serr)
		}
		if !strings.Contains(strings.Join(drv.NormSearch(srs), ";"), "canary-fact") {
			return fmt.Errorf("canary search did not find the canary fact: %v", drv.NormSearch(srs))
		}
		if err != nil {
			return fmt.Errorf("canary event: %v", err)
		}
		ok := false
		for _, v := range fr.Values {
			if fmt.Sprint(v) == "canary-ok" {
				ok = true
			}
		}
		if !ok {
			return fmt.Errorf("canary rule did not fire (values %v)", fr.Values)
		}
	}
	return nil
}

// ---------- HTTP ----------
type httpTarget struct {
	srv  *httptest.Server
	sysT *sysTarget
	cl   *http.Client
}

func newHTTPTarget(linear bool) *httpTarget {
	st := newSysTarget(linear)
	svc := &service.Service{System: st.s}
	h, err := service.NewHTTPService(drv.Ctx(), svc)
	if err != nil {
		panic(err)
	}
	return &httpTarget{httptest.NewServer(h), st, &http.Client{Timeout: callLimit}}
}

func (t *httpTarget) post(uri, body string) (int, string, error) {
	resp, err := t.cl.Post(t.srv.URL+uri, "application/json", bytes.NewBufferString(body))
	if err != nil {
		return 0, "", err
	}
	defer resp.Body.Close()
	b, _ := ioutil.ReadAll(resp.Body)
	return resp.StatusCode, string(b), nil
}

var httpURIs = map[string][2]string{
	"addFact": {"/api/loc/facts/add", "fact"}, "addRule": {"/api/loc/rules/add", "rule"}, "searchFacts": {"/api/loc/facts/search", "pattern"},
	"searchRules": {"/api/loc/rules/search", "event"}, "query": {"/api/loc/facts/query", "query"}, "event": {"/api/loc/events/ingest", "event"},
	"remFact": {"/api/loc/facts/rem", ""}, "getFact": {"/api/loc/facts/get", ""}, "listRules": {"/api/loc/rules/list", ""},
}

func (t *httpTarget) do(c call) (string, error) {
	u := httpURIs[c.Op]
	body := c.Raw
	if body == "" && c.Op != "rawBody" {
		m := map[string]interface{}{"location": "H"}
		if c.Id != "" {
			m["id"] = c.Id
		}
		if u[1] != "" {
			m[u[1]] = c.Doc
		}
		body = js(m)
	}
	uri := u[0]
	if c.Op == "rawBody" {
		uri = c.Id
	}
	code, txt, err := t.post(uri, body)
	if err != nil {
		// the server dropped the connection or did not answer: neither a result nor an error response
		return "", &noAnswer{err}
	}
	if c.Op == "addFact" || c.Op == "addRule" {
		var r map[string]interface{}
		if json.Unmarshal([]byte(txt), &r) == nil {
			if id, ok := r["id"].(string); ok && code == 200 {
				t.sysT.held[id] = true
			}
		}
	}
	if code != 200 {
		return "", fmt.Errorf("status %d: %.100s", code, txt)
	}
	return txt, nil
}

type noAnswer struct{ err error }

func (e *noAnswer) Error() string { return "no HTTP answer: " + e.err.Error() }

func (t *httpTarget) cleanup() bool              { return t.sysT.cleanup() }
func (t *httpTarget) canary(n int, s bool) error { return t.sysT.canary(n, s) }

// ---------- campaign ----------
func classify(panicText string) string {
	return ""
}

func campaign(r *rep.Report, e rep.Env, via string) {
	n := e.Pick(8000, 60000)
	ops := []string{"addFact", "addFact", "addRule", "addRule", "searchFacts", "searchRules", "query", "event", "event", "remFact", "getFact", "listRules"}
	for half := 0; half < 2; half++ {
		kind := drv.Kinds[half]
		var t target
		switch via {
		case "loc":
			t = newLocTarget(kind)
		case "sys":
			t = newSysTarget(kind == "linear")
		case "http":
			t = newHTTPTarget(kind == "linear")
		}
		g := gen.New(e.BatchSeed()*179424673 + int64(half))
		vn := 0
		for i := 0; i < n/2; i++ {
			c := call{Via: via, State: kind, Op: ops[g.Intn(len(ops))]}
			switch c.Op {
			case "addFact":
				c.Id, c.Doc = g.HId(), g.HDoc()
			case "addRule":
				c.Id = g.HId()
				if g.Intn(3) == 0 {
					c.Doc = g.HDoc()
				} else {
					c.Doc = g.HRuleish()
				}
				// `when` is pattern position
				c.Doc = patternizeWhen(c.Doc, &vn)
			case "searchFacts":
				c.Doc = gen.PatternSide(g.HDoc(), &vn)
			case "query":
				c.Doc = gen.PatternSide(hquery(g, 3), &vn)
			case "searchRules", "event":
				c.Doc = g.HDoc()
			case "remFact", "getFact":
				c.Id = g.HId()
			}
			if via == "http" && g.Intn(25) == 0 {
				c.Op = "rawBody"
				c.Id = []string{"/api/loc/facts/add", "/api/json", "/api/yaml", "/api/loc/events/ingest", "/api/sys/util/batch", "/nowhere"}[g.Intn(6)]
				c.Raw = []string{"", "[]", "[1,2]", "null", "\"str\"", "{", "location=H&fact=%7B%7D", "a: [b", "{\"uri\":5}", "{\"requests\":[5]}", "{\"requests\":[{\"uri\":5}]}", "{\"requests\":[{\"uri\":\"/api/loc/facts/query\",\"location\":\"H\",\"query\":{\"bogus\":\"q\\\"uote\"}}]}",
					"location=H&fact=", "location=H&pattern=", "location=H&event=&fact=", "location=H&rule=%20"}[g.Intn(16)]
			}
			if via != "loc" && c.Op != "rawBody" && g.Intn(30) == 0 {
				c.Raw = []string{"", "[]", "5", "null", "\"s\"", "{\"a\":", "{\"rule\":5}"}[g.Intn(7)]
			}
			r.Journal(c)
			var derr error
			returned, pan := drv.Guard(callLimit, func() { _, derr = t.do(c) })
			r.Case(gen.Touches(c.Doc) || c.Raw != "" || strings.HasPrefix(c.Id, "?"), via+kind+ref.Canon(c))
			if derr != nil {
				r.Count("inputs_rejected_with_error", 1)
			} else {
				r.Count("inputs_accepted", 1)
			}
			wit := rep.J{"call": c}
			if !returned {
				r.Violate(hangKey(c), "the call did not return within 25 s (hang)", wit)
				return // the location is wedged; end this batch half
			}
			if pan != "" {
				wit["panic"] = pan
				r.Violate(panicKey(pan, c), "a panic escaped a public operation: "+firstLine(pan), wit)
			}
			if na, ok := derr.(*noAnswer); ok {
				wit["error"] = na.Error()
				r.Violate(noAnswerKey(c), "the HTTP service gave neither a result nor an error response (connection dropped)", wit)
			}
			// canary 1 (weak): while the input, if accepted, is still stored, ordinary
			// traffic must return without panic or hang.
			var cerr error
			ret2, pan2 := drv.Guard(callLimit, func() { cerr = t.canary(i, false) })
			if !ret2 {
				r.Violate(hangKey(c), "after this input ordinary requests on the location hang (poisoned)", wit)
				return
			}
			if pan2 != "" {
				wit["canary_panic"] = pan2
				r.Violate(panicKey(pan2, c), "after this input ordinary requests on the location panic (poisoned): "+firstLine(pan2), wit)
			}
			// remove whatever was accepted, then canary 2 (strict): the location must
			// serve ordinary requests normally (fixed rule fires, fact round trip).
			clean := false
			ret3, pan3 := drv.Guard(callLimit, func() { clean = t.cleanup() })
			if !ret3 {
				r.Violate(hangKey(c), "removing the accepted input hangs", wit)
				return
			}
			if pan3 != "" {
				wit["cleanup_panic"] = pan3
				r.Violate(panicKey(pan3, c), "removing the accepted input panics: "+firstLine(pan3), wit)
			}
			if clean && pan3 == "" {
				ret4, pan4 := drv.Guard(callLimit, func() { cerr = t.canary(i, true) })
				if !ret4 {
					r.Violate(hangKey(c), "after this input ordinary requests on the location hang (poisoned)", wit)
					return
				}
				if pan4 != "" {
					wit["canary_panic"] = pan4
					r.Violate(panicKey(pan4, c), "after this input was rejected/removed ordinary requests panic: "+firstLine(pan4), wit)
				} else if cerr != nil {
					wit["canary_error"] = cerr.Error()
					r.Violate("", "after this input was rejected/removed ordinary requests on the location fail: "+cerr.Error(), wit)
				}
				r.Count("strict_canaries", 1)
			} else {
				r.Count("weak_canaries_only", 1)
			}
			if derr != nil && gen.Touches(c.Doc) && r.WantSample() {
				r.Sample(rep.J{"call": c, "outcome": "rejected: " + derr.Error(), "canary": "ok"})
			}
		}
	}
}

func firstLine(s string) string {
	if i := strings.Index(s, "\n"); i >= 0 {
		s = s[:i]
	}
	if len(s) > 160 {
		s = s[:160]
	}
	return s
}

func hangKey(c call) string            { return "" }
func noAnswerKey(c call) string        { return "" }
func panicKey(p string, c call) string { return "" }

// patternizeWhen renames variables inside a rule's `when` only.
func patternizeWhen(doc interface{}, vn *int) interface{} {
	m, ok := doc.(map[string]interface{})
	if !ok {
		return doc
	}
	if w, ok := m["when"]; ok {
		m["when"] = gen.PatternSide(w, vn)
	}
	if c, ok := m["condition"]; ok {
		m["condition"] = gen.PatternSide(c, vn)
	}
	if rl, ok := m["rule"].(map[string]interface{}); ok {
		m["rule"] = patternizeWhen(rl, vn)
	}
	return m
}

// storedVarStrings: variable-looking strings are legal data.  Facts holding them STAY stored
// while queries, searches and events with conditions that use the same variable names run:
// a variable gets bound to a string that is its own name, or to the name of another variable
// that is bound back to it.  Every request must return (result or error).
func storedVarStrings(r *rep.Report, e rep.Env, via string) {
	P := func(m map[string]interface{}) map[string]interface{} { return map[string]interface{}{"pattern": m} }
	M := func(kv ...interface{}) map[string]interface{} {
		m := map[string]interface{}{}
		for i := 0; i+1 < len(kv); i += 2 {
			m[kv[i].(string)] = kv[i+1]
		}
		return m
	}
	facts := []map[string]interface{}{
		M("a", "?x"), M("b", "?x", "c", 1.0), M("p", "?y"), M("q", "?x"), M("r", "?y", "s", "?x"),
		M("a", "?"), M("b", "??x"), M("a", []interface{}{"?x", "?y"}), M("k", map[string]interface{}{"a": "?x"}),
	}
	queries := []interface{}{
		map[string]interface{}{"and": []interface{}{P(M("a", "?x")), P(M("b", "?x"))}},
		map[string]interface{}{"and": []interface{}{P(M("p", "?x")), P(M("q", "?y")), P(M("r", "?x"))}},
		map[string]interface{}{"and": []interface{}{P(M("p", "?x")), P(M("q", "?y")), P(M("r", "?y", "s", "?x"))}},
		map[string]interface{}{"and": []interface{}{P(M("a", "?x")), map[string]interface{}{"not": P(M("b", "?x"))}}},
		map[string]interface{}{"or": []interface{}{P(M("a", "?x")), P(M("q", "?x"))}},
		map[string]interface{}{"and": []interface{}{P(M("a", "?x")), map[string]interface{}{"code": "x == '?x'"}}},
		map[string]interface{}{"and": []interface{}{P(M("a", "?v")), P(M("k", M("a", "?v")))}},
		map[string]interface{}{"and": []interface{}{P(M("a", []interface{}{"?x"})), P(M("b", "?x"))}},
	}
	for half := 0; half < 2; half++ {
		kind := drv.Kinds[half]
		var t target
		switch via {
		case "loc":
			t = newLocTarget(kind)
		case "sys":
			t = newSysTarget(kind == "linear")
		default:
			t = newHTTPTarget(kind == "linear")
		}
		var calls []call
		for i, f := range facts {
			calls = append(calls, call{Via: via, State: kind, Op: "addFact", Id: fmt.Sprintf("vs%d", i), Doc: f})
		}
		for qi, q := range queries {
			calls = append(calls, call{Via: via, State: kind, Op: "query", Doc: q})
			// the same query as the condition of a rule hit by an ordinary event
			calls = append(calls, call{Via: via, State: kind, Op: "addRule", Id: fmt.Sprintf("vr%d", qi), Doc: map[string]interface{}{
				"when": P(M("go", fmt.Sprintf("vr%d", qi))), "condition": q, "action": map[string]interface{}{"code": "1"}}})
			calls = append(calls, call{Via: via, State: kind, Op: "event", Doc: M("go", fmt.Sprintf("vr%d", qi))})
		}
		for _, p := range []map[string]interface{}{M("a", "?x"), M("b", "?x", "c", "?c"), M("r", "?y", "s", "?x"), M("a", []interface{}{"?x"})} {
			calls = append(calls, call{Via: via, State: kind, Op: "searchFacts", Doc: p})
		}
		for _, c := range calls {
			r.Journal(c)
			var derr error
			returned, pan := drv.Guard(callLimit, func() { _, derr = t.do(c) })
			r.Case(true, "stored-var-strings"+via+kind+ref.Canon(c))
			r.Count("requests_over_stored_variable_looking_data", 1)
			wit := rep.J{"call": c, "stored_facts": facts, "error": drv.ErrStr(derr)}
			if !returned {
				r.Violate(hangKey(c), "the call did not return within 25 s (hang)", wit)
				return
			}
			if pan != "" {
				wit["panic"] = pan
				r.Violate(panicKey(pan, c), "a panic escaped a public operation: "+firstLine(pan), wit)
			}
			if na, ok := derr.(*noAnswer); ok {
				wit["error"] = na.Error()
				r.Violate(noAnswerKey(c), "the HTTP service gave neither a result nor an error response (connection dropped)", wit)
			}
		}
		var cerr error
		clean := false
		if ret, pan := drv.Guard(callLimit, func() { clean = t.cleanup() }); !ret || pan != "" {
			r.Violate("", "removing facts that hold variable-looking strings hangs or panics: "+firstLine(pan), rep.J{"stored_facts": facts})
			return
		}
		if clean {
			if ret, pan := drv.Guard(callLimit, func() { cerr = t.canary(0, true) }); !ret || pan != "" || cerr != nil {
				r.Violate("", fmt.Sprintf("after facts holding variable-looking strings were removed ordinary requests fail (returned=%v panic=%q error=%v)", ret, firstLine(pan), cerr), rep.J{"stored_facts": facts})
			}
		}
	}
}

// hostileScripts: a rule's action (or condition) is part of the rule document.  Scripts that
// call the functions rulio offers them with absent, ill-typed or malformed arguments must end
// as an error or a value on their node; the event returns and the location keeps working.
func hostileScripts(r *rep.Report, e rep.Env, via string) {
	codes := []string{
		"Env.http('GET','%zz')", "Env.http('GET','http://[::1')", "Env.http('GET',':')", "Env.http()", "Env.http(5, {})", "Env.httpx({})", "Env.httpx({uri: 7})",
		"Env.AddFact()", "Env.AddFact(5)", "Env.AddFact('x', 'not a map')", "Env.AddFact(null, null)", "Env.RemFact()", "Env.RemFact({})",
		"Env.Search()", "Env.Search(5)", "Env.Search({a:'?x'}, 'yes')", "Env.Query()", "Env.Query({bogus:1})", "Env.Query({and:5})",
		"Env.match()", "Env.match(1,2)", "Env.match({a:'?x'}, null)", "Env.ProcessEvent()", "Env.ProcessEvent(null)", "Env.ProcessEvent('str')",
		"Env.AddRule()", "Env.AddRule('r', 5)", "Env.AddRule('r', {when: 5})", "Env.RemRule(null)", "Env.sleep('long')", "Env.sleep(-1)",
		"throw {toString: function(){ throw 1 }}", "throw {valueOf: function(){ return {} }, toString: function(){ return {} }}", "throw null", "throw undefined",
		// values JSON cannot render: as a result, and written into a fact the canary's search meets
		"0/0", "1/0", "[1, -1/0]", "({n: 0/0})", "Env.AddFact('nf', {canaryn: 0/0})", "Env.AddFact('nf', {canaryn: [1/0]})", "Env.AddFact('canary-fact', {canaryn: -1/0})",
		// values that contain themselves: as the result, and handed to the functions the engine offers
		"var a = {}; a.self = a; a", "var a = []; a[0] = a; a", "var a = {b: {}}; a.b.up = a; Env.AddFact('cyc', a)", "var a = {}; a.self = a; Env.log(a)", "var a = {}; a.self = a; Env.Search(a)", "var a = {}; a.self = a; Env.match(a, a)", "var a = {when: {}}; a.when.pattern = a; Env.AddRule('cyc', a)", "var a = {}; a.self = a; Env.ProcessEvent(a)", "var a = {}; a.self = a; Env.Query(a)", "var a = {}; a.self = a; Env.out(a)",
		"Env.out()", "Env.bindings.x.y.z", "Env.secsFromNow()", "Env.secsFromNow('soon')", "Env.encode()", "Env.gensym(5)", "Env.exit()", "Env.log()",
	}
	for half := 0; half < 2; half++ {
		kind := drv.Kinds[half]
		var t target
		switch via {
		case "loc":
			t = newLocTarget(kind)
		case "sys":
			t = newSysTarget(kind == "linear")
		default:
			t = newHTTPTarget(kind == "linear")
		}
		// variable names are any strings that start with '?': names with characters that mean something
		// elsewhere (regular expressions, JavaScript), in rules whose action goes to an external endpoint
		// (the action's code has the bindings substituted into it) or runs as a script
		for vi, vn := range []string{"?who(", "?a[", "?x)", "?*", "?+x", "?\\", "?{2", "?|", "?a b", "?$1", "?a.b", "?\"q"} {
			for _, act := range []map[string]interface{}{
				{"endpoint": "http://127.0.0.1:1/none", "code": map[string]interface{}{"greeting": "hello " + vn, "to": vn, "n": "?other"}},
				{"code": "1"},
			} {
				rule := map[string]interface{}{"when": map[string]interface{}{"pattern": map[string]interface{}{"hv": fmt.Sprint(vi), "left": vn}}, "action": act}
				calls := []call{
					{Via: via, State: kind, Op: "addRule", Id: "hv", Doc: rule},
					{Via: via, State: kind, Op: "event", Doc: map[string]interface{}{"hv": fmt.Sprint(vi), "left": "bart"}},
				}
				for _, c := range calls {
					r.Journal(c)
					var derr error
					returned, pan := drv.Guard(callLimit, func() { _, derr = t.do(c) })
					r.Case(true, "hostile-varname"+via+kind+vn+c.Op+fmt.Sprint(act["endpoint"]))
					r.Count("hostile_variable_name_requests", 1)
					wit := rep.J{"call": c, "variable": vn, "error": drv.ErrStr(derr)}
					if !returned {
						r.Violate(hangKey(c), "the call did not return within 25 s (hang)", wit)
						return
					}
					if pan != "" {
						wit["panic"] = pan
						r.Violate(panicKey(pan, c), "a panic escaped a public operation: "+firstLine(pan), wit)
					}
					if na, ok := derr.(*noAnswer); ok {
						wit["error"] = na.Error()
						r.Violate(noAnswerKey(c), "the HTTP service gave neither a result nor an error response (connection dropped)", wit)
					}
				}
				clean := false
				if ret, pan := drv.Guard(callLimit, func() { clean = t.cleanup() }); !ret || pan != "" {
					r.Violate("", "removing a rule with an unusual variable name hangs or panics: "+firstLine(pan), rep.J{"variable": vn})
					return
				}
				if clean {
					var cerr error
					if ret, pan := drv.Guard(callLimit, func() { cerr = t.canary(vi, true) }); !ret || pan != "" || cerr != nil {
						r.Violate("", fmt.Sprintf("after a rule with an unusual variable name ran and was removed ordinary requests fail (returned=%v panic=%q error=%v)", ret, firstLine(pan), cerr), rep.J{"variable": vn})
					}
				}
			}
		}
		for ci, code := range codes {
			for _, pos := range []string{"action", "condition"} {
				rule := map[string]interface{}{"when": map[string]interface{}{"pattern": map[string]interface{}{"hs": fmt.Sprint(ci)}}, "action": map[string]interface{}{"code": "1"}}
				if pos == "action" {
					rule["action"] = map[string]interface{}{"code": code}
				} else {
					rule["condition"] = map[string]interface{}{"code": code}
				}
				calls := []call{
					{Via: via, State: kind, Op: "addRule", Id: "hs", Doc: rule},
					{Via: via, State: kind, Op: "event", Doc: map[string]interface{}{"hs": fmt.Sprint(ci)}},
				}
				for _, c := range calls {
					r.Journal(c)
					var derr error
					returned, pan := drv.Guard(callLimit, func() { _, derr = t.do(c) })
					r.Case(true, "hostile-script"+via+kind+pos+code+c.Op)
					r.Count("hostile_script_requests", 1)
					wit := rep.J{"call": c, "script": code, "position": pos, "error": drv.ErrStr(derr)}
					if !returned {
						r.Violate(hangKey(c), "the call did not return within 25 s (hang)", wit)
						return
					}
					if pan != "" {
						wit["panic"] = pan
						r.Violate(panicKey(pan, c), "a panic escaped a public operation: "+firstLine(pan), wit)
					}
					if na, ok := derr.(*noAnswer); ok {
						wit["error"] = na.Error()
						r.Violate(noAnswerKey(c), "the HTTP service gave neither a result nor an error response (connection dropped)", wit)
					}
				}
				var cerr error
				clean := false
				if ret, pan := drv.Guard(callLimit, func() { clean = t.cleanup() }); !ret || pan != "" {
					r.Violate("", "removing a rule with a hostile script hangs or panics: "+firstLine(pan), rep.J{"script": code})
					return
				}
				if clean {
					if ret, pan := drv.Guard(callLimit, func() { cerr = t.canary(ci, true) }); !ret || pan != "" || cerr != nil {
						r.Violate("", fmt.Sprintf("after a rule with a hostile script ran and was removed ordinary requests fail (returned=%v panic=%q error=%v)", ret, firstLine(pan), cerr), rep.J{"script": code, "position": pos})
					}
				}
			}
		}
	}
}

// refusedReplacement: a stored rule is overwritten by documents that are refused (by validation,
// by the index, by the state's add hook).  A refused request changes nothing: the old rule is
// still stored AND still fires.
func refusedReplacement(r *rep.Report, via string) {
	bad := []interface{}{
		map[string]interface{}{"when": map[string]interface{}{"pattern": map[string]interface{}{"b": 2.0}}, "schedule": 5.0, "action": map[string]interface{}{"code": "2"}},
		map[string]interface{}{"when": map[string]interface{}{"pattern": map[string]interface{}{"b": 2.0}}, "schedule": nil, "action": map[string]interface{}{"code": "2"}},
		map[string]interface{}{"schedule": "not a schedule", "action": map[string]interface{}{"code": "2"}},
		map[string]interface{}{"when": map[string]interface{}{"pattern": map[string]interface{}{"q": []interface{}{"x", 1.0}}}, "action": map[string]interface{}{"code": "2"}},
		map[string]interface{}{"when": 5.0, "action": map[string]interface{}{"code": "2"}},
		map[string]interface{}{"when": map[string]interface{}{"pattern": map[string]interface{}{"b": 2.0}}, "action": map[string]interface{}{"code": "2"}, "expires": "yesterday"},
		// a rule that is fine except for an expiry that cannot be read (found after the rule itself was checked)
		map[string]interface{}{"when": map[string]interface{}{"pattern": map[string]interface{}{"b": 2.0}}, "action": map[string]interface{}{"code": "2"}, "ttl": "soon"},
		map[string]interface{}{"when": map[string]interface{}{"pattern": map[string]interface{}{"b": 2.0}}, "action": map[string]interface{}{"code": "2"}, "ttl": map[string]interface{}{"s": 1.0}},
	}
	for half := 0; half < 4; half++ {
		kind := drv.Kinds[half%2]
		reloading := half >= 2 // every request works on a location loaded from storage (System only)
		if reloading && via != "sys" {
			continue
		}
		for bi, doc := range bad {
			var t target
			switch via {
			case "loc":
				t = newLocTarget(kind)
			case "sys":
				if reloading {
					t = newSysTargetTTL(kind == "linear", sys.Never)
				} else {
					t = newSysTarget(kind == "linear")
				}
			default:
				t = newHTTPTarget(kind == "linear")
			}
			good := map[string]interface{}{"when": map[string]interface{}{"pattern": map[string]interface{}{"old": "rule"}}, "action": map[string]interface{}{"code": "'old rule fired'"}, "deleteWith": []interface{}{"anchor"}}
			t.do(call{Via: via, State: kind, Op: "addFact", Id: "anchor", Doc: map[string]interface{}{"holds": "the rule"}})
			if _, err := t.do(call{Via: via, State: kind, Op: "addRule", Id: "keep", Doc: good}); err != nil {
				r.Violate("", "cannot add an ordinary rule: "+err.Error(), nil)
				continue
			}
			c := call{Via: via, State: kind, Op: "addRule", Id: "keep", Doc: doc}
			r.Journal(c)
			var derr error
			returned, pan := drv.Guard(callLimit, func() { _, derr = t.do(c) })
			r.Case(true, fmt.Sprint("refused-replacement", via, kind, bi, reloading))
			r.Count("refused_replacements", 1)
			wit := rep.J{"call": c, "error": drv.ErrStr(derr), "location_reloaded_per_request": reloading}
			if !returned || pan != "" {
				r.Violate("", "replacing a rule by a malformed one hangs or panics: "+firstLine(pan), wit)
				return
			}
			if derr == nil {
				continue // accepted: then it IS the rule now
			}
			var out string
			ret2, pan2 := drv.Guard(callLimit, func() {
				out, _ = t.do(call{Via: via, State: kind, Op: "event", Doc: map[string]interface{}{"old": "rule"}})
			})
			wit["event_result"] = out
			if !ret2 || pan2 != "" {
				r.Violate("", "after a refused replacement an event for the old rule hangs or panics: "+firstLine(pan2), wit)
				return
			}
			if !strings.Contains(out, "old rule fired") {
				r.Violate("", "a refused replacement of a rule was not without effect: the old rule no longer fires", wit)
			}
			// the rule that stayed is still the dependent it was: it goes with its anchor
			var out2 string
			ret4, pan4 := drv.Guard(callLimit, func() {
				t.do(call{Via: via, State: kind, Op: "remFact", Id: "anchor"})
				out2, _ = t.do(call{Via: via, State: kind, Op: "event", Doc: map[string]interface{}{"old": "rule"}})
			})
			if !ret4 || pan4 != "" {
				r.Violate("", "removing the anchor of the rule that stayed hangs or panics: "+firstLine(pan4), wit)
				return
			}
			if strings.Contains(out2, "old rule fired") {
				wit["event_result_after_anchor_removed"] = out2
				r.Violate("", "after a refused replacement the rule that stayed is no longer deleted with the fact it names in deleteWith", wit)
			}
			// and the location goes on taking writes
			var cerr error
			if ret3, pan3 := drv.Guard(callLimit, func() { cerr = t.canary(bi, false) }); !ret3 || pan3 != "" || cerr != nil {
				r.Violate("", fmt.Sprintf("after a refused replacement of a rule ordinary requests to the location hang or fail (returned=%v panic=%q error=%v)", ret3, firstLine(pan3), cerr), wit)
				if !ret3 {
					return
				}
			}
		}
	}
}

// ruleLikeFacts: a fact may carry a `rule` property; whatever is ACCEPTED under that key (through
// facts/add or rules/add) must not stop events from reaching the ordinary rule with the same `when`.
// hostileProperties: a property of a stored rule written in fact form with a value of the wrong type
// ({"id":"good","!disabled":"yes"}, a number, null, a map, an array).  Whatever rulio makes of the value,
// the add and every later event return without a panic, and once the property fact is removed again the
// rule fires as before.
func hostileProperties(r *rep.Report, via string) {
	when := func() map[string]interface{} {
		return map[string]interface{}{"pattern": map[string]interface{}{"hp": "1"}}
	}
	vals := []interface{}{"yes", "true", "", 1.0, 0.0, nil, map[string]interface{}{"a": 1.0}, []interface{}{true}, true, false}
	props := []string{"!disabled", "!note", "!expires", "!ttl"}
	for half := 0; half < 2; half++ {
		kind := drv.Kinds[half]
		for pi, prop := range props {
			for vi, v := range vals {
				var t target
				switch via {
				case "loc":
					t = newLocTarget(kind)
				case "sys":
					t = newSysTarget(kind == "linear")
				default:
					t = newHTTPTarget(kind == "linear")
				}
				good := map[string]interface{}{"when": when(), "action": map[string]interface{}{"code": "'good rule fired'"}}
				if _, err := t.do(call{Via: via, State: kind, Op: "addRule", Id: "good", Doc: good}); err != nil {
					r.Violate("", "cannot add an ordinary rule: "+err.Error(), nil)
					continue
				}
				c := call{Via: via, State: kind, Op: "addFact", Id: "", Doc: map[string]interface{}{"id": "good", prop: v}}
				r.Journal(c)
				var derr error
				var pid string
				returned, pan := drv.Guard(callLimit, func() { pid, derr = t.do(c) })
				r.Case(true, fmt.Sprint("hostile-property", via, kind, pi, vi))
				r.Count("hostile_property_values", 1)
				wit := rep.J{"call": c, "error": drv.ErrStr(derr), "accepted": derr == nil, "stored_as": pid}
				if !returned || pan != "" {
					r.Violate("", "adding a property fact with an odd value hangs or panics: "+firstLine(pan), wit)
					return
				}
				for k := 0; k < 2; k++ {
					var out string
					var eerr error
					ret2, pan2 := drv.Guard(callLimit, func() {
						out, eerr = t.do(call{Via: via, State: kind, Op: "event", Doc: map[string]interface{}{"hp": "1"}})
					})
					wit["event_result"], wit["event_error"] = out, drv.ErrStr(eerr)
					if !ret2 || pan2 != "" {
						r.Violate("", "an event that meets a rule carrying a property with an odd value hangs or panics: "+firstLine(pan2), wit)
						return
					}
				}
				if derr == nil {
					// (a property fact is stored under "!<target>.<property>")
					t.do(call{Via: via, State: kind, Op: "remFact", Id: "!good." + prop[1:]})
				}
				var out string
				ret3, pan3 := drv.Guard(callLimit, func() {
					out, _ = t.do(call{Via: via, State: kind, Op: "event", Doc: map[string]interface{}{"hp": "1"}})
				})
				if !ret3 || pan3 != "" {
					r.Violate("", "an event after the odd property was removed hangs or panics: "+firstLine(pan3), wit)
					return
				}
				if !strings.Contains(out, "good rule fired") {
					wit["event_result_after_removal"] = out
					r.Violate("", "after the odd property fact was removed again an event no longer reaches the rule", wit)
				}
			}
		}
	}
}

func ruleLikeFacts(r *rep.Report, via string) {
	when := func() map[string]interface{} {
		return map[string]interface{}{"pattern": map[string]interface{}{"rl": "1"}}
	}
	docs := []struct {
		op  string
		doc map[string]interface{}
	}{
		{"addFact", map[string]interface{}{"rule": map[string]interface{}{"when": when()}}},
		{"addFact", map[string]interface{}{"rule": map[string]interface{}{"when": when(), "action": 5.0}}},
		{"addFact", map[string]interface{}{"rule": map[string]interface{}{"when": when(), "condition": 5.0, "action": map[string]interface{}{"code": "1"}}}},
		{"addFact", map[string]interface{}{"rule": map[string]interface{}{"when": when(), "actions": "all of them"}}},
		{"addFact", map[string]interface{}{"rule": map[string]interface{}{"when": when(), "action": map[string]interface{}{"code": "1"}, "expires": "soon"}}},
		{"addFact", map[string]interface{}{"rule": map[string]interface{}{"when": when(), "schedule": "+1h", "action": map[string]interface{}{"code": "1"}}}},
		{"addFact", map[string]interface{}{"rule": map[string]interface{}{"when": map[string]interface{}{"pattern": map[string]interface{}{"?k": "1", "other": 1.0}}, "action": map[string]interface{}{"code": "1"}}}},
		{"addRule", map[string]interface{}{"when": map[string]interface{}{"pattern": map[string]interface{}{"?k": "1", "other": 1.0}}, "action": map[string]interface{}{"code": "1"}}},
		{"addRule", map[string]interface{}{"when": map[string]interface{}{"pattern": map[string]interface{}{"rl": []interface{}{"?a", "?b"}}}, "action": map[string]interface{}{"code": "1"}}},
	}
	for half := 0; half < 2; half++ {
		kind := drv.Kinds[half]
		for di, d := range docs {
			var t target
			switch via {
			case "loc":
				t = newLocTarget(kind)
			case "sys":
				t = newSysTarget(kind == "linear")
			default:
				t = newHTTPTarget(kind == "linear")
			}
			good := map[string]interface{}{"when": when(), "action": map[string]interface{}{"code": "'good rule fired'"}}
			if _, err := t.do(call{Via: via, State: kind, Op: "addRule", Id: "good", Doc: good}); err != nil {
				r.Violate("", "cannot add an ordinary rule: "+err.Error(), nil)
				continue
			}
			c := call{Via: via, State: kind, Op: d.op, Id: "rulelike", Doc: d.doc}
			r.Journal(c)
			var derr error
			returned, pan := drv.Guard(callLimit, func() { _, derr = t.do(c) })
			r.Case(true, fmt.Sprint("rule-like", via, kind, di))
			r.Count("rule_like_items", 1)
			wit := rep.J{"call": c, "error": drv.ErrStr(derr), "accepted": derr == nil}
			if !returned || pan != "" {
				r.Violate("", "adding a rule-like item hangs or panics: "+firstLine(pan), wit)
				return
			}
			var out string
			var eerr error
			ret2, pan2 := drv.Guard(callLimit, func() {
				out, eerr = t.do(call{Via: via, State: kind, Op: "event", Doc: map[string]interface{}{"rl": "1", "other": 1.0}})
			})
			wit["event_result"], wit["event_error"] = out, drv.ErrStr(eerr)
			if !ret2 || pan2 != "" {
				r.Violate("", "an event after a rule-like item hangs or panics: "+firstLine(pan2), wit)
				return
			}
			if !strings.Contains(out, "good rule fired") {
				r.Violate("", fmt.Sprintf("rule-like item %d (%s, %s, accepted=%v): afterwards an event no longer reaches the ordinary rule with a matching `when`", di, d.op, kind, derr == nil), wit)
			}
		}
	}
}

func hquery(g *gen.Gen, depth int) interface{} {
	if depth <= 0 || g.Intn(3) == 0 {
		switch g.Intn(4) {
		case 0:
			return map[string]interface{}{"code": g.HValue(1)}
		case 1:
			return g.HMap(2)
		}
		return map[string]interface{}{"pattern": g.HValue(2)}
	}
	subs := []interface{}{}
	for i := g.Intn(3); i > 0; i-- {
		subs = append(subs, hquery(g, depth-1))
	}
	switch g.Intn(5) {
	case 0:
		return map[string]interface{}{"and": subs}
	case 1:
		return map[string]interface{}{"or": subs, "shortCircuit": g.HValue(0)}
	case 2:
		return map[string]interface{}{"not": hquery(g, depth-1)}
	case 3:
		return map[string]interface{}{"and": g.HValue(1)}
	}
	return map[string]interface{}{"or": subs}
}

// sheens: the listed process-fatal finding in its own child.
func sheens(r *rep.Report) {
	l, _ := drv.NewLoc("S", "linear", drv.MustMem())
	c := call{Via: "loc", State: "linear", Op: "addFact+searchFacts", Doc: map[string]interface{}{"a": "?x", "b": "?x"}}
	r.Journal(c)
	r.Case(true, "sheens-recursion")
	l.AddFact(drv.Ctx(), "v", core.Map{"a": "?x", "b": "?x"})
	r.WritePartial() // a report exists even though the next call may kill the process
	_, err := l.SearchFacts(drv.Ctx(), core.Map{"a": "?x", "b": "?x"}, false)
	r.Sample(rep.J{"call": c, "outcome": fmt.Sprint("returned: ", err)})
	r.Note("sheens_trigger_returned", true)
	r.Write()
}

func main() {
	e := rep.GetEnv()
	r := rep.New(e)
	switch e.Stage {
	case "sheens":
		sheens(r)
		return
	default:
		if e.Batch == 0 {
			r.WritePartial() // a stack overflow in the next part kills the process; keep what there is
			storedVarStrings(r, e, e.Stage)
			r.WritePartial()
			refusedReplacement(r, e.Stage)
			ruleLikeFacts(r, e.Stage)
			hostileProperties(r, e.Stage)
			hostileScripts(r, e, e.Stage)
		}
		campaign(r, e, e.Stage)
	}
	r.Write()
	fmt.Fprintf(os.Stderr, "c13 %s batch %d: %d evaluations\n", e.Stage, e.Batch, r.Evaluations)
	os.Exit(0)
}
