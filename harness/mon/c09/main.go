// Monitor for C09: locations are isolated except through declared parents.
// A forest of 3-6 locations is driven through a SimpleLocationProvider of
// core.Locations and through sys.System; after every operation the own view
// and the inherited view of EVERY location are compared with the model
// (non-interference + exactly the transitive parents).  Parent loops run in
// their own stage because the failure mode is a fatal stack overflow.
package main

import (
	"encoding/json"
	"fmt"
	"os"
	"sort"
	"strings"
	"time"

	"github.com/Comcast/rulio/core"
	"github.com/Comcast/rulio/sys"

	"verif/lib/cronner"
	"verif/lib/drv"
	"verif/lib/gen"
	"verif/lib/ref"
	"verif/lib/rep"
)

type op struct {
	Op      string                 `json:"op"`
	Loc     string                 `json:"loc"`
	Id      string                 `json:"id,omitempty"`
	Fact    map[string]interface{} `json:"fact,omitempty"`
	Parents []string               `json:"parents,omitempty"`
	On      bool                   `json:"on,omitempty"`
}

type forest interface {
	apply(o op) error
	get(loc, id string) (string, error)
	search(loc string, pattern map[string]interface{}, inherited bool) ([]string, error)
	listRules(loc string, inherited bool) ([]string, error)
	processReusing(ctx *core.Context, other, loc string, ev map[string]interface{}) ([]string, error)
	dispatch(loc string, event map[string]interface{}) ([]string, error)
	// process runs the whole event (conditions and actions) and returns the action values
	process(loc string, event map[string]interface{}) ([]string, error)
}

func ruleMap(loc, id, e string) map[string]interface{} {
	return map[string]interface{}{"when": map[string]interface{}{"pattern": map[string]interface{}{"e": e}}, "action": map[string]interface{}{"code": fmt.Sprintf("'%s'", id)}}
}

// ---- core.Location + SimpleLocationProvider ----
type coreForest struct {
	locs map[string]*core.Location
}

func newCoreForest(kind string, names []string) *coreForest {
	f := &coreForest{locs: map[string]*core.Location{}}
	prov := core.NewSimpleLocationProvider(f.locs)
	for _, n := range names {
		l, err := drv.NewLoc(n, kind, drv.MustMem())
		if err != nil {
			panic(err)
		}
		l.Provider = prov
		f.locs[n] = l
	}
	return f
}

func (f *coreForest) apply(o op) error {
	l := f.locs[o.Loc]
	ctx := drv.Ctx()
	var err error
	switch o.Op {
	case "addFact":
		_, err = l.AddFact(ctx, o.Id, core.Map(ref.CloneMap(o.Fact)))
	case "remFact":
		_, err = l.RemFact(ctx, o.Id)
	case "addRule":
		_, err = l.AddRule(ctx, o.Id, core.Map(ref.CloneMap(o.Fact)))
	case "remRule":
		_, err = l.RemRule(ctx, o.Id)
	case "setParents":
		_, err = l.SetParents(ctx, o.Parents)
	case "enable":
		err = l.EnableRule(ctx, o.Id, o.On)
	case "clear":
		err = l.Clear(ctx)
	case "parentsFact":
		_, err = l.AddFact(ctx, "", core.Map(ref.CloneMap(o.Fact)))
	}
	return err
}

func (f *coreForest) get(loc, id string) (string, error) {
	m, err := f.locs[loc].GetFact(drv.Ctx(), id)
	if err != nil {
		return "", err
	}
	return ref.Canon(map[string]interface{}(m)), nil
}

func (f *coreForest) search(loc string, p map[string]interface{}, inh bool) ([]string, error) {
	srs, err := f.locs[loc].SearchFacts(drv.Ctx(), core.Map(ref.CloneMap(p)), inh)
	if err != nil {
		return nil, err
	}
	return multi(srs), nil
}

// multi keeps repetitions: a fact must be reported once.
func multi(srs *core.SearchResults) []string {
	out := []string{}
	for _, f := range srs.Found {
		bs := make([]ref.B, len(f.Bindingss))
		for i, b := range f.Bindingss {
			bs[i] = ref.B(b)
		}
		for _, c := range ref.CanonSet(bs) {
			out = append(out, f.Id+"|"+c)
		}
	}
	sort.Strings(out)
	return out
}

func (f *coreForest) listRules(loc string, inh bool) ([]string, error) {
	rs, err := f.locs[loc].ListRules(drv.Ctx(), inh)
	sort.Strings(rs)
	return rs, err
}

func (f *coreForest) dispatch(loc string, ev map[string]interface{}) ([]string, error) {
	fr := &core.FindRules{Event: ref.CloneMap(ev)}
	fr.Do(drv.Ctx(), f.locs[loc])
	if fr.Disposition != core.Complete {
		return nil, fmt.Errorf("%s", fr.Disposition.Msg)
	}
	ids := []string{}
	for _, c := range fr.Children {
		ids = append(ids, c.Rule.Id)
	}
	sort.Strings(ids)
	return ids, nil
}

func (f *coreForest) process(loc string, ev map[string]interface{}) ([]string, error) {
	fr, cond := f.locs[loc].ProcessEvent(drv.Ctx(), core.Map(ref.CloneMap(ev)))
	if cond != nil {
		return nil, fmt.Errorf("%s", cond.Msg)
	}
	vs := []string{}
	for _, v := range fr.Values {
		vs = append(vs, fmt.Sprint(v))
	}
	sort.Strings(vs)
	return vs, nil
}

func (f *coreForest) processReusing(ctx *core.Context, other, loc string, ev map[string]interface{}) ([]string, error) {
	f.locs[other].GetFact(ctx, "no-such-fact")
	fr, cond := f.locs[loc].ProcessEvent(ctx, core.Map(ref.CloneMap(ev)))
	if cond != nil {
		return nil, fmt.Errorf("%s", cond.Msg)
	}
	vs := []string{}
	for _, v := range fr.Values {
		vs = append(vs, fmt.Sprint(v))
	}
	sort.Strings(vs)
	return vs, nil
}

// faultyProvider cannot open one of the locations (its storage is down, its record won't load).
type faultyProvider struct {
	inner core.LocationProvider
	fail  string
}

func (p *faultyProvider) GetLocation(ctx *core.Context, name string) (*core.Location, error) {
	if name == p.fail {
		return nil, fmt.Errorf("cannot open location %s: injected fault", name)
	}
	return p.inner.GetLocation(ctx, name)
}

// ancestorFault: while the ancestor `bad` cannot be opened, every inherited operation at l must
// report an error (not answer as if the ancestor held nothing); afterwards everything is as before.
func (f *coreForest) ancestorFault(r *rep.Report, l, bad string, wit rep.J) {
	old := map[string]core.LocationProvider{}
	for n, loc := range f.locs {
		old[n] = loc.Provider
		loc.Provider = &faultyProvider{loc.Provider, bad}
	}
	defer func() {
		for n, loc := range f.locs {
			loc.Provider = old[n]
		}
	}()
	ctx := drv.Ctx()
	loc := f.locs[l]
	outs := map[string]error{}
	_, outs["inherited search"] = loc.SearchFacts(ctx, core.Map{"k": "?v"}, true)
	_, outs["query"] = loc.Query(ctx, `{"pattern":{"k":"?v"}}`)
	_, outs["inherited rule search"] = loc.SearchRules(ctx, core.Map{"e": "go"}, true)
	if _, cond := loc.ProcessEvent(ctx, core.Map{"e": "go"}); cond != nil {
		outs["event"] = fmt.Errorf("%s", cond.Msg)
	} else {
		outs["event"] = nil
	}
	// a script at l that swallows the failed inherited search and goes on: what it does next still concerns l
	x, serr := loc.RunJavascript(drv.Ctx(), "try { Env.Search({k:'?v'}) } catch (e) {}; Env.AddFact('written-after-fault', {w:'here'}); Env.Location", nil, nil, nil)
	r.Count("ancestor_fault_script_probes", 1)
	where := []string{}
	for n, other := range f.locs {
		if _, gerr := other.GetFact(drv.Ctx(), "written-after-fault"); gerr == nil {
			where = append(where, n)
			other.RemFact(drv.Ctx(), "written-after-fault")
		}
	}
	sort.Strings(where)
	if serr != nil || fmt.Sprint(x) != l || len(where) != 1 || where[0] != l {
		w := rep.J{"at": l, "ancestor_that_cannot_be_opened": bad, "Env.Location": fmt.Sprint(x), "script_error": drv.ErrStr(serr), "fact_found_in": where}
		for k, v := range wit {
			w[k] = v
		}
		r.Violate("", "after a failed inherited search (swallowed by the script) the script's next write went to another location than its own", w)
	}
	for name, err := range outs {
		r.Count("ancestor_fault_probes", 1)
		if err == nil {
			w := rep.J{"operation": name, "at": l, "ancestor_that_cannot_be_opened": bad}
			for k, v := range wit {
				w[k] = v
			}
			r.Violate("", name+" at a location succeeded although one of its ancestors could not be opened (its facts and rules are silently missing)", w)
		}
	}
}

// ---- sys.System ----
type sysForest struct{ s *sys.System }

func newSysForest(linear bool) *sysForest {
	s, err := drv.NewSys(drv.SysOpts{Linear: linear, TTL: sys.Forever}, cronner.New(true))
	if err != nil {
		panic(err)
	}
	return &sysForest{s}
}

func js(x interface{}) string {
	b, _ := json.Marshal(x)
	return string(b)
}

func (f *sysForest) apply(o op) error {
	ctx := drv.Ctx()
	var err error
	switch o.Op {
	case "addFact":
		_, err = f.s.AddFact(ctx, o.Loc, o.Id, js(o.Fact))
	case "remFact":
		_, err = f.s.RemFact(ctx, o.Loc, o.Id)
	case "addRule":
		_, err = f.s.AddRule(ctx, o.Loc, o.Id, js(o.Fact))
	case "remRule":
		_, err = f.s.RemRule(ctx, o.Loc, o.Id)
	case "setParents":
		_, err = f.s.SetParents(ctx, o.Loc, o.Parents)
	case "enable":
		err = f.s.EnableRule(ctx, o.Loc, o.Id, o.On)
	case "clear":
		err = f.s.ClearLocation(ctx, o.Loc)
	case "parentsFact":
		_, err = f.s.AddFact(ctx, o.Loc, "", js(o.Fact))
	}
	return err
}

func (f *sysForest) get(loc, id string) (string, error) {
	s, err := f.s.GetFact(drv.Ctx(), loc, id)
	if err != nil {
		return "", err
	}
	var m map[string]interface{}
	json.Unmarshal([]byte(s), &m)
	return ref.Canon(m), nil
}

func (f *sysForest) search(loc string, p map[string]interface{}, inh bool) ([]string, error) {
	srs, err := f.s.SearchFacts(drv.Ctx(), loc, js(p), inh)
	if err != nil {
		return nil, err
	}
	return multi(srs), nil
}

func (f *sysForest) listRules(loc string, inh bool) ([]string, error) {
	rs, err := f.s.ListRules(drv.Ctx(), loc, inh)
	sort.Strings(rs)
	return rs, err
}

func (f *sysForest) dispatch(loc string, ev map[string]interface{}) ([]string, error) {
	fr, err := f.s.ProcessEvent(drv.Ctx(), loc, js(ev))
	if err != nil {
		return nil, err
	}
	ids := []string{}
	for _, v := range fr.Values {
		ids = append(ids, fmt.Sprint(v))
	}
	sort.Strings(ids)
	return ids, nil
}

func (f *sysForest) process(loc string, ev map[string]interface{}) ([]string, error) {
	return f.dispatch(loc, ev)
}

// processReusing: a client that keeps one Context for all its requests first reads at
// `other`, then sends the event to loc with the same Context.
func (f *sysForest) processReusing(ctx *core.Context, other, loc string, ev map[string]interface{}) ([]string, error) {
	f.s.GetFact(ctx, other, "no-such-fact")
	fr, err := f.s.ProcessEvent(ctx, loc, js(ev))
	if err != nil {
		return nil, err
	}
	vs := []string{}
	for _, v := range fr.Values {
		vs = append(vs, fmt.Sprint(v))
	}
	sort.Strings(vs)
	return vs, nil
}

func mergeParents(ps map[string][]string, l string, np []string) map[string][]string {
	out := map[string][]string{}
	for k, v := range ps {
		out[k] = v
	}
	out[l] = np
	return out
}

// ---- model ----
type model struct {
	locs    map[string]*ref.Loc
	parents map[string][]string
}

func (m *model) ancestors(l string) ([]string, bool) {
	// returns L + transitive parents; loop=true if the chain loops back
	seen := map[string]bool{}
	onpath := map[string]bool{}
	var out []string
	loop := false
	var walk func(x string)
	walk = func(x string) {
		if onpath[x] {
			loop = true
			return
		}
		if seen[x] {
			return
		}
		onpath[x] = true
		for _, p := range m.parents[x] {
			walk(p)
		}
		onpath[x] = false
		seen[x] = true
		out = append(out, x)
	}
	walk(l)
	return out, loop
}

var probes = []map[string]interface{}{{"a": "?x"}, {"k": "v", "a": "?y"}}
var events = []map[string]interface{}{{"e": "go"}, {"e": "stop"}}

func check(r *rep.Report, f forest, m *model, names []string, run []op, via, kind string) {
	wit := func(extra rep.J) rep.J {
		w := rep.J{"via": via, "state": kind, "history": run, "parents": m.parents}
		for k, v := range extra {
			w[k] = v
		}
		return w
	}
	for _, l := range names {
		ml := m.locs[l]
		// own view
		for _, id := range ml.Ids() {
			got, err := f.get(l, id)
			if err != nil || got != ref.Canon(ml.Items[id]) {
				r.Violate("", "own view: an item of a location changed or vanished although no operation addressed it", wit(rep.J{"location": l, "id": id, "got": got, "error": drv.ErrStr(err)}))
			}
		}
		for _, p := range probes {
			got, err := f.search(l, p, false)
			want := ml.Search(p)
			if err != nil || !ref.SameSet(got, want) {
				r.Violate("", "own view: a non-inherited search of a location differs from its own facts", wit(rep.J{"location": l, "pattern": p, "got": got, "want": want, "error": drv.ErrStr(err)}))
			}
		}
		// inherited view
		anc, loop := m.ancestors(l)
		if loop {
			continue // loops are the loop stage's business
		}
		for _, p := range probes {
			want := []string{}
			for _, a := range anc {
				want = append(want, m.locs[a].Search(p)...)
			}
			sort.Strings(want)
			got, err := f.search(l, p, true)
			if err != nil {
				r.Violate(diamondKey(m, l), "inherited search failed: "+err.Error(), wit(rep.J{"location": l, "pattern": p, "ancestors": anc}))
			} else if !ref.SameSet(got, want) {
				what := "inherited search does not return exactly the facts of the location and its transitive parents"
				if len(got) > len(want) {
					what += " (a fact is reported more than once, or a fact of an unrelated location is seen)"
				}
				r.Violate(diamondKey(m, l), what, wit(rep.J{"location": l, "pattern": p, "ancestors": anc, "got": got, "want": want}))
			} else if cf, isCore := f.(*coreForest); isCore {
				// the same search issued by a script of the location (as its rules' actions do) sees the same facts
				pj, _ := json.Marshal(p)
				x, serr := cf.locs[l].RunJavascript(drv.Ctx(), "var fs = Env.Search("+string(pj)+").Found; var n = 0; for (var i = 0; i < fs.length; i++) { n += fs[i].Bindingss.length; }; n", nil, nil, nil)
				r.Count("inherited_searches_issued_by_a_script", 1)
				if serr != nil || fmt.Sprint(x) != fmt.Sprint(len(want)) {
					r.Violate(diamondKey(m, l), "Env.Search in a script of the location does not see what the inherited search through the API sees", wit(rep.J{"location": l, "pattern": p, "ancestors": anc, "script_count": fmt.Sprint(x), "script_error": drv.ErrStr(serr), "want": want}))
				}
			}
		}
		wantRules := []string{}
		for _, a := range anc {
			wantRules = append(wantRules, m.locs[a].RuleIds()...)
		}
		sort.Strings(wantRules)
		if got, err := f.listRules(l, true); err != nil || !ref.SameSet(got, wantRules) {
			r.Violate(diamondKey(m, l), "inherited rule list differs from the rules of the location and its transitive parents", wit(rep.J{"location": l, "ancestors": anc, "got": got, "want": wantRules, "error": drv.ErrStr(err)}))
		}
		for _, ev := range events {
			want := []string{}
			for _, a := range anc {
				for id := range m.locs[a].Dispatch(ev, ml) {
					want = append(want, id)
				}
			}
			sort.Strings(want)
			got, err := f.dispatch(l, ev)
			if err != nil {
				r.Violate(diamondKey(m, l), "event dispatch failed: "+err.Error(), wit(rep.J{"location": l, "event": ev, "ancestors": anc}))
			} else if !ref.SameSet(got, want) {
				r.Violate(diamondKey(m, l), "an event dispatched rules other than those of the location and its transitive parents (children must not see a parent's events)", wit(rep.J{"location": l, "event": ev, "ancestors": anc, "got": got, "want": want}))
			}
		}
	}
}

func diamondKey(m *model, l string) string { return "" }

func campaign(r *rep.Report, e rep.Env) {
	nHist := e.Pick(60, 400)
	for hi := 0; hi < nHist; hi++ {
		g := gen.New(e.BatchSeed()*295075153 + int64(hi))
		nloc := 3 + g.Intn(4)
		names := []string{}
		for i := 0; i < nloc; i++ {
			names = append(names, fmt.Sprintf("L%d", i))
		}
		kind := drv.Kinds[hi%2]
		via := []string{"core", "sys"}[(hi/2)%2]
		var f forest
		if via == "core" {
			f = newCoreForest(kind, names)
		} else {
			f = newSysForest(kind == "linear")
		}
		m := &model{locs: map[string]*ref.Loc{}, parents: map[string][]string{}}
		for _, n := range names {
			m.locs[n] = ref.NewLoc(n)
		}
		var run []op
		var sharedCtx *core.Context
		steps := 10 + g.Intn(15)
		for s := 0; s < steps; s++ {
			li := g.Intn(nloc)
			l := names[li]
			o := op{Loc: l}
			switch k := g.Intn(17); {
			case k < 5:
				o.Op, o.Id = "addFact", fmt.Sprintf("%sf%d", factPrefix(hi, l), g.Intn(3))
				o.Fact = map[string]interface{}{"a": gen.Strs[g.Intn(4)], "k": "v", "at": l}
				if g.Intn(3) == 0 {
					// a structured value that a script could write into
					o.Fact["box"] = map[string]interface{}{"count": 1.0, "tags": []interface{}{"a", "b"}}
				}
			case k < 6:
				o.Op, o.Id = "remFact", fmt.Sprintf("%sf%d", factPrefix(hi, l), g.Intn(3))
			case k < 9:
				o.Op, o.Id = "addRule", fmt.Sprintf("%s-r%d", l, g.Intn(2))
				o.Fact = ruleMap(l, o.Id, []string{"go", "stop"}[g.Intn(2)])
			case k < 10:
				o.Op, o.Id = "remRule", fmt.Sprintf("%s-r%d", l, g.Intn(2))
			case k < 11:
				// flag in l for a rule of some (possibly parent) location
				o.Op, o.Id, o.On = "enable", fmt.Sprintf("%s-r%d", names[g.Intn(nloc)], g.Intn(2)), g.Intn(2) == 0
			case k < 12:
				// a rule with a pattern condition (an inherited search) whose action writes through
				// the JavaScript location functions: the write must land in the event's location
				o.Op, o.Id = "addRule", fmt.Sprintf("%s-mk", l)
				o.Fact = map[string]interface{}{"when": map[string]interface{}{"pattern": map[string]interface{}{"mk": "?n"}},
					"condition": map[string]interface{}{"pattern": map[string]interface{}{"k": "v", "at": "?where"}},
					"action":    map[string]interface{}{"code": "Env.AddFact('made-' + ruleId + '-' + n, {a:'made', k:'w', at:location}); location"}}
			case k < 13:
				o.Op = "mkEvent"
				o.Id = fmt.Sprint(s)
				switch g.Intn(4) {
				case 0:
					// an event that carries its rule, sent with a Context the client used for another location before
					o.Op = "embedEvent"
				case 1:
					// an event that carries a rule whose condition binds structured values of visible facts
					// (own and inherited) and whose action writes INTO the bound values
					o.Op = "mutEvent"
				}
			default:
				// parents only point to higher-numbered locations: chains, fans, diamonds, never a loop;
				// the parent set is changed through SetParents, through the `!parents` property fact,
				// and dropped by clearing the location
				o.Op = []string{"setParents", "setParents", "parentsFact", "clear"}[g.Intn(4)]
				if o.Op != "clear" {
					o.Parents = []string{}
					for j := li + 1; j < nloc; j++ {
						if g.Intn(2) == 0 {
							o.Parents = append(o.Parents, names[j])
						}
					}
					if o.Op == "parentsFact" {
						ps := make([]interface{}, len(o.Parents))
						for i, p := range o.Parents {
							ps[i] = p
						}
						o.Fact = map[string]interface{}{"!parents": ps}
					}
				}
			}
			r.Journal(rep.J{"via": via, "state": kind, "hist": hi, "op": o})
			run = append(run, o)
			if o.Op == "mutEvent" {
				ev := map[string]interface{}{"mu": o.Id, "evaluate!": map[string]interface{}{
					"when": map[string]interface{}{"pattern": map[string]interface{}{"mu": "?n"}},
					"condition": map[string]interface{}{"and": []interface{}{
						map[string]interface{}{"pattern": map[string]interface{}{"box": "?b", "at": "?where"}},
						// a script in the condition writes into the bound value, too
						map[string]interface{}{"code": "b.count = b.count + 1000; b.tags[1] = 'changed by the condition at ' + location; true"}}},
					"action": map[string]interface{}{"code": "b.count = b.count + 100; b.tags[0] = 'changed by ' + location; b.added = true; 'wrote into a copy'"}}}
				if _, loop := m.ancestors(l); loop {
					continue
				}
				_, err := f.process(l, ev)
				r.Count("events_whose_action_writes_into_bound_values", 1)
				if err != nil {
					r.Violate("", "event with a value-mutating action failed: "+err.Error(), rep.J{"via": via, "state": kind, "history": run})
				}
				r.Case(true, via+kind+ref.Canon(run))
				// the bindings are the action's own: no stored fact of any location changes
				check(r, f, m, names, run, via, kind)
				continue
			}
			if o.Op == "embedEvent" {
				other := names[(li+1)%nloc]
				ev := map[string]interface{}{"emb": o.Id, "evaluate!": map[string]interface{}{
					"when":   map[string]interface{}{"pattern": map[string]interface{}{"emb": "?n"}},
					"action": map[string]interface{}{"code": "Env.AddFact('emb-' + n, {a:'made', k:'w', at:location}); location"}}}
				if _, loop := m.ancestors(l); loop {
					continue
				}
				if sharedCtx == nil {
					sharedCtx = drv.Ctx()
				}
				got, err := f.processReusing(sharedCtx, other, l, ev)
				r.Count("embedded_rule_events_with_reused_context", 1)
				m.locs[l].Put("emb-"+o.Id, map[string]interface{}{"a": "made", "k": "w", "at": l})
				if err != nil {
					r.Violate("", "event with an embedded rule failed: "+err.Error(), rep.J{"via": via, "state": kind, "history": run})
				} else if !ref.SameSet(got, []string{l}) {
					r.Violate("", "the action of an embedded rule did not run in the event's own location (the client's Context was last used for another location)", rep.J{"via": via, "state": kind, "history": run, "got": got, "want": []string{l}, "context_last_used_for": other})
				}
				r.Case(true, via+kind+ref.Canon(run))
				check(r, f, m, names, run, via, kind)
				continue
			}
			if o.Op == "mkEvent" {
				ev := map[string]interface{}{"mk": o.Id}
				anc, loop := m.ancestors(l)
				if loop {
					continue
				}
				// expected: every visible, enabled mk rule whose condition finds >=1 visible fact writes into l
				var facts []map[string]interface{}
				for _, a := range anc {
					for _, it := range m.locs[a].Items {
						facts = append(facts, it)
					}
				}
				expectVals := []string{}
				for _, a := range anc {
					for id := range m.locs[a].Dispatch(ev, m.locs[l]) {
						n := len(ref.Eval(ref.Q{"pattern": map[string]interface{}{"k": "v", "at": "?where"}}, facts, []ref.B{{}}))
						for i := 0; i < n; i++ {
							expectVals = append(expectVals, l)
						}
						if n > 0 {
							m.locs[l].Put("made-"+id+"-"+o.Id, map[string]interface{}{"a": "made", "k": "w", "at": l})
						}
					}
				}
				sort.Strings(expectVals)
				got, err := f.process(l, ev)
				r.Count("action_events", 1)
				if err != nil {
					r.Violate("", "event with a writing action failed: "+err.Error(), rep.J{"via": via, "state": kind, "history": run})
				} else if !ref.SameSet(got, expectVals) {
					r.Violate("", "the actions of an event did not run in the event's own location (values name the location each action saw)", rep.J{"via": via, "state": kind, "history": run, "got": got, "want": expectVals})
				}
				r.Case(len(m.parents) > 0, via+kind+ref.Canon(run))
				check(r, f, m, names, run, via, kind)
				continue
			}
			err := f.apply(o)
			if err != nil {
				if via == "sys" && strings.Contains(err.Error(), "not found") && (o.Op == "remFact" || o.Op == "remRule" || (o.Op == "enable" && o.On)) {
					// through the System the cron remove-hook looks the id up first: removing an
					// absent id is an error and changes nothing (operation not acknowledged)
					r.Count("sys_rem_of_absent_id", 1)
					continue
				}
				r.Violate("", "operation failed: "+err.Error(), rep.J{"via": via, "state": kind, "history": run})
				break
			}
			if cf, isCore := f.(*coreForest); isCore && o.Op == "setParents" && len(o.Parents) > 0 {
				if _, loop := (&model{locs: m.locs, parents: mergeParents(m.parents, l, o.Parents)}).ancestors(l); !loop {
					cf.ancestorFault(r, l, o.Parents[len(o.Parents)-1], rep.J{"via": via, "state": kind, "history": run})
				}
			}
			ml := m.locs[l]
			switch o.Op {
			case "addFact":
				ml.Put(o.Id, o.Fact)
			case "remFact":
				ml.Rem(o.Id)
			case "addRule":
				ml.Put(o.Id, map[string]interface{}{"rule": o.Fact})
			case "remRule":
				ml.Rem(o.Id)
				ml.Rem(ref.PropId(o.Id, "disabled"))
			case "enable":
				if o.On {
					ml.Rem(ref.PropId(o.Id, "disabled"))
				} else {
					ml.Put(ref.PropId(o.Id, "disabled"), map[string]interface{}{"id": o.Id, "!disabled": true, "deleteWith": []interface{}{o.Id}})
				}
			case "clear":
				ml.Clear()
				delete(m.parents, l)
			case "setParents", "parentsFact":
				m.parents[l] = o.Parents
				ps := make([]interface{}, len(o.Parents))
				for i, p := range o.Parents {
					ps[i] = p
				}
				if o.Op == "parentsFact" {
					ml.Put(ref.PropId("", "parents"), o.Fact) // stored as given
				} else {
					ml.Put(ref.PropId("", "parents"), map[string]interface{}{"id": "", "!parents": ps, "deleteWith": []interface{}{""}})
				}
			}
			edges := 0
			for _, ps := range m.parents {
				edges += len(ps)
			}
			r.Case(edges > 0, via+kind+ref.Canon(run))
			if edges > 0 {
				r.Count("steps_with_parent_edges", 1)
			}
			nv := r.Evaluations
			check(r, f, m, names, run, via, kind)
			_ = nv
			if edges > 1 && r.WantSample() {
				r.Sample(rep.J{"via": via, "state": kind, "locations": nloc, "parents": m.parents, "last_op": o})
			}
		}
	}
}

// loops: a parent chain that loops back must be reported as an error.
func loops(r *rep.Report, e rep.Env) {
	shapes := [][][2]string{
		{{"A", "A"}},                         // self
		{{"A", "B"}, {"B", "A"}},             // indirect, length 2
		{{"A", "B"}, {"B", "C"}, {"C", "A"}}, // length 3
		{{"A", "B"}, {"B", "C"}, {"C", "B"}}, // loop not through the start
	}
	for _, via := range []string{"core", "sys"} {
		for _, kind := range drv.Kinds {
			for si, shape := range shapes {
				names := []string{"A", "B", "C"}
				var f forest
				if via == "core" {
					f = newCoreForest(kind, names)
				} else {
					f = newSysForest(kind == "linear")
				}
				f.apply(op{Op: "addFact", Loc: "A", Id: "fa", Fact: map[string]interface{}{"a": "s1"}})
				f.apply(op{Op: "addRule", Loc: "B", Id: "rb", Fact: ruleMap("B", "rb", "go")})
				for _, ed := range shape {
					f.apply(op{Op: "setParents", Loc: ed[0], Parents: []string{ed[1]}})
				}
				r.Journal(rep.J{"loop_shape": shape, "via": via, "state": kind})
				r.Case(true, fmt.Sprint("loop", via, kind, si))
				type outcome struct {
					name string
					err  error
				}
				var outs []outcome
				ok, pan := drv.Guard(30*time.Second, func() {
					_, err := f.search("A", map[string]interface{}{"a": "?x"}, true)
					outs = append(outs, outcome{"inherited search", err})
					_, err = f.dispatch("A", map[string]interface{}{"e": "go"})
					outs = append(outs, outcome{"event dispatch", err})
					_, err = f.listRules("A", true)
					outs = append(outs, outcome{"inherited rule list", err})
				})
				wit := rep.J{"via": via, "state": kind, "parent_edges": shape}
				if !ok {
					r.Violate("", "an operation over a looping parent chain did not return within 30 s", wit)
					r.Write()
					os.Exit(0)
				}
				if pan != "" {
					r.Violate("", "an operation over a looping parent chain panicked: "+pan[:min(200, len(pan))], wit)
					continue
				}
				for _, o := range outs {
					r.Count("loop_operations", 1)
					if o.name == "inherited rule list" {
						continue // ListRules documents no error result for a failed inherited search
					}
					if o.err == nil || !strings.Contains(strings.ToLower(o.err.Error()), "loop") {
						r.Violate("", fmt.Sprintf("%s over a looping parent chain returned %v instead of the loop error", o.name, o.err), wit)
					}
				}
			}
		}
	}
}

func min(a, b int) int {
	if a < b {
		return a
	}
	return b
}

// factPrefix: fact ids are per location; every third history uses the same ids in
// all locations, so that a location and its ancestors hold different facts under one id.
func factPrefix(hi int, loc string) string {
	if hi%3 == 2 {
		return ""
	}
	return loc + "-"
}

// failedWalk: an inherited search that fails while it visits an ancestor (here: a pattern the
// matcher refuses only when it meets a candidate fact, and only the parent holds one), swallowed by
// the script that issued it.  What the rule of the child does next still concerns the child.
func failedWalk(r *rep.Report) {
	for _, kind := range drv.Kinds {
		for variant := 0; variant < 2; variant++ {
			f := newCoreForest(kind, []string{"C", "P", "Q"})
			ctx := drv.Ctx()
			f.locs["P"].AddFact(ctx, "p1", core.Map{"other": 2.0, "a": 1.0})
			f.locs["Q"].AddFact(ctx, "q1", core.Map{"unrelated": "x"})
			f.locs["C"].SetParents(ctx, []string{"Q", "P"})
			swallow := "try { Env.Search({'?p':1,'other':2}); } catch (e) { }; true"
			write := "Env.AddFact('written', {writtenBy:'rule of C'}); Env.RemFact('p1'); Env.Location"
			rule := core.Map{"when": map[string]interface{}{"pattern": map[string]interface{}{"go": "?x"}}}
			if variant == 0 {
				rule["condition"] = map[string]interface{}{"code": swallow}
				rule["action"] = map[string]interface{}{"code": write}
			} else {
				rule["policies"] = map[string]interface{}{"serialActions": true}
				rule["actions"] = []interface{}{map[string]interface{}{"code": swallow}, map[string]interface{}{"code": write}}
			}
			if _, err := f.locs["C"].AddRule(ctx, "r", rule); err != nil {
				r.Violate("", "AddRule failed: "+err.Error(), nil)
				continue
			}
			fr, cond := f.locs["C"].ProcessEvent(drv.Ctx(), core.Map{"go": "now"})
			r.Case(true, fmt.Sprint("failed-walk", kind, variant))
			r.Count("failed_walk_cases", 1)
			vals := []string{}
			if fr != nil {
				for _, v := range fr.Values {
					vals = append(vals, fmt.Sprint(v))
				}
			}
			where := []string{}
			for _, n := range []string{"C", "P", "Q"} {
				if _, err := f.locs[n].GetFact(drv.Ctx(), "written"); err == nil {
					where = append(where, n)
				}
			}
			_, p1err := f.locs["P"].GetFact(drv.Ctx(), "p1")
			if len(where) != 1 || where[0] != "C" || p1err != nil || len(vals) == 0 || vals[len(vals)-1] != "C" {
				r.Violate("", "after an inherited search failed at an ancestor (swallowed by the script), the rule of the child wrote into / removed from another location", rep.J{"state": kind, "swallowed_in": []string{"condition", "first of two serial actions"}[variant], "values": vals, "condition": cond, "fact_written_found_in": where, "parent_fact_p1_still_there": p1err == nil})
			}
		}
	}
}

func main() {
	e := rep.GetEnv()
	r := rep.New(e)
	if e.Stage != "loops" && e.Batch == 0 {
		failedWalk(r)
	}
	if e.Stage == "loops" {
		r.WritePartial()
		loops(r, e)
	} else {
		campaign(r, e)
	}
	r.Write()
	fmt.Fprintf(os.Stderr, "c09 %s batch %d: %d evaluations\n", e.Stage, e.Batch, r.Evaluations)
}
