// Monitor for C16 (in-memory cron): Add / Rem / replace / Suspend / Resume /
// Pause calls and job callbacks are logged with monotonic timestamps while
// the real firing loop runs; the log is checked offline (no early fire, no
// fire after an early Rem, one-shot exactly once with canary-judged bounded
// progress, recurring not before its occurrences) and the Timeline is walked
// under the cron's own lock at quiescent points (sorted, ids unique).
package main

import (
	"fmt"
	"math/rand"
	"os"
	"sort"
	"strings"
	"sync"
	"sync/atomic"
	"time"

	"github.com/Comcast/rulio/cron"

	"verif/lib/drv"
	"verif/lib/hook"
	"verif/lib/rep"
)

type ev struct {
	T     string `json:"t"` // add rem suspend resume pause fire
	Id    string `json:"id,omitempty"`
	Gen   int    `json:"gen,omitempty"`    // which Add of this id
	DueMs int64  `json:"due_ms,omitempty"` // requested delay (one-shot)
	Call  int64  `json:"call_ns"`
	Ret   int64  `json:"ret_ns"`
	Found bool   `json:"found,omitempty"`
	Err   string `json:"err,omitempty"`
	Rec   bool   `json:"recurring,omitempty"`
}

type logger struct {
	mu    sync.Mutex
	start time.Time
	evs   []ev
}

func (l *logger) now() int64 { return time.Since(l.start).Nanoseconds() }
func (l *logger) add(e ev) {
	l.mu.Lock()
	l.evs = append(l.evs, e)
	l.mu.Unlock()
}

type runSpec struct {
	Seed    int64  `json:"seed"`
	Pattern string `json:"pattern"`
}

func timelineOK(c *cron.Cron) (string, int) {
	c.Lock()
	defer c.Unlock()
	seen := map[string]bool{}
	for i, j := range c.Timeline {
		if seen[j.Id] {
			return "two pending entries for job id " + j.Id, len(c.Timeline)
		}
		seen[j.Id] = true
		if i > 0 && c.Timeline[i].Next.Before(c.Timeline[i-1].Next) {
			return "the timeline is not sorted by due time", len(c.Timeline)
		}
	}
	return "", len(c.Timeline)
}

func oneRun(r *rep.Report, spec runSpec) {
	rng := rand.New(rand.NewSource(spec.Seed))
	ctx := drv.Ctx()
	bc := cron.NewCronBroadcaster()
	c, err := cron.NewCron(bc, 150*time.Millisecond, "verif", 1000)
	if err != nil {
		r.Violate("", "NewCron failed: "+err.Error(), nil)
		return
	}
	c.Start(ctx)
	time.Sleep(20 * time.Millisecond)
	l := &logger{start: time.Now()}
	gens := map[string]int{}
	var started int64
	pool := []string{"j0", "j1", "j2", "j3"}
	add := func(id string, d time.Duration) {
		gens[id]++
		g := gens[id]
		e := ev{T: "add", Id: id, Gen: g, DueMs: d.Milliseconds(), Call: l.now()}
		err := c.Add(ctx, id, "+"+d.String(), func(t time.Time) error {
			f := ev{T: "fire", Id: id, Gen: g, Call: l.now()}
			if rng2 := g % 3; rng2 == 0 {
				time.Sleep(30 * time.Millisecond) // a callback that takes a while
			}
			f.Ret = l.now()
			l.add(f)
			return nil
		})
		e.Ret = l.now()
		e.Err = drv.ErrStr(err)
		l.add(e)
	}
	// addRecD: every-second job whose first callback takes `first`, later ones 40 ms
	var startedGen sync.Map
	addRecD := func(id string, first time.Duration) {
		gens[id]++
		g := gens[id]
		e := ev{T: "add", Id: id, Gen: g, Rec: true, Call: l.now()}
		var nth int64
		err := c.Add(ctx, id, "* * * * * * *", func(t time.Time) error {
			f := ev{T: "fire", Id: id, Gen: g, Rec: true, Call: l.now()}
			atomic.AddInt64(&started, 1)
			startedGen.Store(fmt.Sprintf("%s#%d", id, g), true)
			if atomic.AddInt64(&nth, 1) == 1 {
				time.Sleep(first)
			} else {
				time.Sleep(40 * time.Millisecond)
			}
			f.Ret = l.now()
			l.add(f)
			return nil
		})
		e.Ret = l.now()
		e.Err = drv.ErrStr(err)
		l.add(e)
	}
	addRec := func(id string) {
		gens[id]++
		g := gens[id]
		e := ev{T: "add", Id: id, Gen: g, Rec: true, Call: l.now()}
		err := c.Add(ctx, id, "* * * * * * *", func(t time.Time) error {
			f := ev{T: "fire", Id: id, Gen: g, Rec: true, Call: l.now()}
			atomic.AddInt64(&started, 1)
			time.Sleep(40 * time.Millisecond)
			f.Ret = l.now()
			l.add(f)
			return nil
		})
		e.Ret = l.now()
		e.Err = drv.ErrStr(err)
		l.add(e)
	}
	rem := func(id string) {
		e := ev{T: "rem", Id: id, Gen: gens[id], Call: l.now()}
		found, err := c.Rem(ctx, id)
		e.Ret, e.Found, e.Err = l.now(), found, drv.ErrStr(err)
		l.add(e)
	}
	ctl := func(what string) {
		e := ev{T: what, Call: l.now()}
		switch what {
		case "suspend":
			c.Suspend(ctx)
		case "resume":
			c.Resume(ctx)
		case "pause":
			c.Pause(ctx)
		}
		e.Ret = l.now()
		l.add(e)
	}
	// bctl: the same commands sent through the broadcaster (every cron of a process hears them)
	bctl := func(what string) {
		e := ev{T: what, Call: l.now()}
		switch what {
		case "suspend":
			bc.Suspend()
		case "resume":
			bc.Resume()
		}
		e.Ret = l.now()
		l.add(e)
	}
	ms := func(n int) time.Duration { return time.Duration(n) * time.Millisecond }
	var burstFires [7]int64
	canaryOK := func() bool {
		t0 := time.Now()
		time.Sleep(20 * time.Millisecond)
		return time.Since(t0) < 400*time.Millisecond
	}
	quiet := func(d time.Duration) {
		time.Sleep(d)
		if msg, _ := timelineOK(c); msg != "" {
			r.Violate("", msg, rep.J{"run": spec, "log": l.evs})
		}
	}
	switch spec.Pattern {
	case "rem-head-then-quiet":
		add("j0", ms(150))
		add("j1", ms(400))
		rem("j0")
		quiet(ms(2300))
	case "replace-head-later":
		add("j0", ms(150))
		add("j1", ms(350))
		add("j0", ms(600)) // replaces
		quiet(ms(2500))
	case "add-earlier-than-head":
		add("j0", ms(500))
		add("j1", ms(120))
		quiet(ms(2400))
	case "add-during-suspend":
		ctl("suspend")
		time.Sleep(ms(30))
		add("j0", ms(100))
		time.Sleep(ms(300))
		ctl("resume")
		quiet(ms(2200))
	case "broadcast-suspend-resume-back-to-back":
		// a pending job, then Suspend and Resume through the broadcaster without a gap (the loop may see
		// one closed channel or two): nothing is suspended afterwards, both jobs fire
		add("j0", ms(300+rng.Intn(200)))
		time.Sleep(ms(rng.Intn(40)))
		bctl("suspend")
		bctl("resume")
		time.Sleep(ms(rng.Intn(40)))
		add("j1", ms(700))
		quiet(ms(2800))
	case "broadcast-double-suspend":
		// Suspend twice, then Resume once: the broadcaster says "not suspended", pending jobs fire
		add("j0", ms(400+rng.Intn(200)))
		bctl("suspend")
		time.Sleep(ms(20 + rng.Intn(40)))
		bctl("suspend")
		time.Sleep(ms(20 + rng.Intn(40)))
		bctl("resume")
		quiet(ms(2800))
	case "broadcast-resume-suspend-resume":
		bctl("resume")
		time.Sleep(ms(10 + rng.Intn(30)))
		add("j0", ms(500))
		bctl("suspend")
		time.Sleep(ms(100))
		bctl("resume")
		quiet(ms(2800))
	case "pause":
		add("j0", ms(100))
		ctl("pause")
		add("j1", ms(80))
		quiet(ms(2300))
	case "rem-recurring-during-run":
		addRec("j0")
		// wait for the first fire to start, remove while the callback runs
		deadline := time.Now().Add(2500 * time.Millisecond)
		for time.Now().Before(deadline) && atomic.LoadInt64(&started) == 0 {
			time.Sleep(time.Millisecond)
		}
		rem("j0")
		quiet(ms(2600))
	case "replace-recurring-during-run":
		addRec("j0")
		deadline := time.Now().Add(2500 * time.Millisecond)
		for time.Now().Before(deadline) && atomic.LoadInt64(&started) == 0 {
			time.Sleep(time.Millisecond)
		}
		add("j0", ms(300)) // replaces the running recurring job by a one-shot
		quiet(ms(2600))
	case "replace-recurring-both-running", "rem-readd-recurring-both-running":
		// J1's first callback is still running when its replacement J2 (same id) fires,
		// and J1 returns while J2's callback runs: J1 must not come back, J2 must go on
		addRecD("j0", ms(1500+rng.Intn(400)))
		deadline := time.Now().Add(2500 * time.Millisecond)
		for time.Now().Before(deadline) && atomic.LoadInt64(&started) == 0 {
			time.Sleep(time.Millisecond)
		}
		time.Sleep(ms(20 + rng.Intn(60)))
		if spec.Pattern == "rem-readd-recurring-both-running" {
			rem("j0")
		}
		addRecD("j0", ms(2000+rng.Intn(300)))
		quiet(ms(6200))
	case "command-burst":
		// many control commands in a row (more than the control channel buffers) while a job is
		// pending: the calls return, and once the pauses are over the job fires
		{
			var fired int64
			c.Add(ctx, "cb", "+300ms", func(t time.Time) error { atomic.AddInt64(&fired, 1); return nil })
			const n = 14
			returned := make(chan bool, 1)
			go func() {
				for i := 0; i < n; i++ {
					c.Pause(ctx)
				}
				returned <- true
			}()
			ok := false
			select {
			case <-returned:
				ok = true
			case <-time.After(10 * time.Second):
			}
			// every pause lasts 150 ms; they are served one after the other
			time.Sleep(time.Duration(n)*150*time.Millisecond + 2*time.Second)
			r.Count("command_bursts", 1)
			wit := rep.J{"run": spec, "commands": n, "all_calls_returned": ok, "fires": atomic.LoadInt64(&fired)}
			if !canaryOK() {
				r.Inconclusive("canary late")
			} else if !ok {
				r.Violate("", "a burst of Pause calls did not return within 10 s (the caller blocks on the full control channel while holding the cron's lock)", wit)
			} else if atomic.LoadInt64(&fired) != 1 {
				r.Violate("", "a pending one-shot job did not fire after a burst of pauses was over", wit)
			}
			if !ok {
				return // the cron is wedged: Kill would block, too
			}
		}
	case "reversed-range-schedule":
		// cron expressions with a range that runs backwards ("5-2 * * * *"): a result or an error, and
		// the cron goes on serving the other jobs (their own cron, in case it does not)
		{
			odd, err := cron.NewCron(cron.NewCronBroadcaster(), 150*time.Millisecond, "verif-odd", 1000)
			if err != nil {
				r.Violate("", "NewCron failed: "+err.Error(), nil)
				return
			}
			odd.Start(ctx)
			results := map[string]string{}
			stuck := false
			for _, sch := range []string{"5-2 * * * *", "* 23-1 * * *", "30-10/5 * * * *", "* * * 12-1 *"} {
				sch := sch
				var aerr error
				ret, pan := drv.Guard(5*time.Second, func() { aerr = odd.Add(ctx, "odd "+sch, sch, func(time.Time) error { return nil }) })
				switch {
				case !ret:
					results[sch] = "did not return within 5 s"
					stuck = true
				case pan != "":
					results[sch] = "panicked: " + strings.SplitN(pan, "\n", 2)[0]
				default:
					results[sch] = "error: " + drv.ErrStr(aerr)
				}
			}
			var fired int64
			ret, _ := drv.Guard(5*time.Second, func() {
				odd.Add(ctx, "plain", "+200ms", func(time.Time) error { atomic.AddInt64(&fired, 1); return nil })
			})
			time.Sleep(1200 * time.Millisecond)
			r.Count("reversed_range_schedules", 4)
			bad := stuck || !ret || atomic.LoadInt64(&fired) != 1
			for _, v := range results {
				if strings.HasPrefix(v, "panicked") {
					bad = true
				}
			}
			if !canaryOK() {
				r.Inconclusive("canary late")
			} else if bad {
				r.Violate("", "a cron expression with a reversed range made Add panic or left the cron unable to take and fire other jobs", rep.J{"run": spec, "add_results": results, "later_add_returned": ret, "later_job_fires": atomic.LoadInt64(&fired)})
			}
			if !stuck && ret {
				odd.Kill(ctx)
			}
		}
	case "recurring-at-the-limit":
		// a cron with room for two pending jobs; while the every-second job's callback runs (it is off
		// the timeline then) two other jobs are added.  Nobody removed the recurring job: it goes on.
		{
			small, err := cron.NewCron(cron.NewCronBroadcaster(), 150*time.Millisecond, "verif-small", 2)
			if err != nil {
				r.Violate("", "NewCron failed: "+err.Error(), nil)
				return
			}
			small.Start(ctx)
			var fired int64
			started := make(chan bool, 100)
			release := make(chan bool, 100)
			small.Add(ctx, "every", "* * * * * * *", func(time.Time) error {
				atomic.AddInt64(&fired, 1)
				started <- true
				<-release
				return nil
			})
			got := false
			select {
			case <-started:
				got = true
			case <-time.After(3 * time.Second):
			}
			nop := func(time.Time) error { return nil }
			e1 := small.Add(ctx, "x", "+1h", nop)
			e2 := small.Add(ctx, "y", "+1h", nop)
			for i := 0; i < 100; i++ {
				release <- true
			}
			time.Sleep(3500 * time.Millisecond)
			n := atomic.LoadInt64(&fired)
			found, _ := small.Rem(ctx, "every")
			small.Kill(ctx)
			r.Count("recurring_at_the_limit_runs", 1)
			wit := rep.J{"run": spec, "limit": 2, "first_occurrence_seen": got, "add_x": drv.ErrStr(e1), "add_y": drv.ErrStr(e2), "fires_of_the_recurring_job": n, "still_there_when_removed": found}
			if !canaryOK() {
				r.Inconclusive("canary late")
			} else if !got || n < 3 || !found {
				r.Violate("", "a recurring job stopped firing (or was gone) after other jobs filled the cron to its limit while its callback ran", wit)
			}
		}
	case "no-occurrence-schedule":
		// a cron expression without any occurrence (30 February) and one whose next occurrence is
		// years away: accepted or refused, the job must not fire now
		var fires int64
		errs := map[string]string{}
		for id, sch := range map[string]string{"never": "0 0 30 2 *", "leap": "0 0 29 2 *"} {
			err := c.Add(ctx, id, sch, func(t time.Time) error { atomic.AddInt64(&fires, 1); return nil })
			errs[sch] = drv.ErrStr(err)
		}
		add("j1", ms(300)) // an ordinary job next to them still works
		quiet(ms(2300))
		r.Count("no_occurrence_schedules", 2)
		if n := atomic.LoadInt64(&fires); n > 0 {
			r.Violate("", fmt.Sprintf("jobs whose schedule has no occurrence now (30 February; 29 February) fired %d times within 2.3 s", n), rep.J{"run": spec, "add_results": errs})
		}
		c.Rem(ctx, "never")
		c.Rem(ctx, "leap")
	case "recurring-callback-error":
		// a callback that reports an error once is no reason to drop a recurring job
		{
			gens["j0"]++
			g := gens["j0"]
			e := ev{T: "add", Id: "j0", Gen: g, Rec: true, Call: l.now()}
			var nth int64
			err := c.Add(ctx, "j0", "* * * * * * *", func(t time.Time) error {
				f := ev{T: "fire", Id: "j0", Gen: g, Rec: true, Call: l.now()}
				k := atomic.AddInt64(&nth, 1)
				f.Ret = l.now()
				l.add(f)
				if k == 2 {
					return fmt.Errorf("this run failed")
				}
				return nil
			})
			e.Ret, e.Err = l.now(), drv.ErrStr(err)
			l.add(e)
		}
		quiet(ms(6200))
	case "concurrent-adds-one-id":
		// several clients add a job under one id at the same moment, seven times; the first burst's
		// survivor fires, the later ones are replaced by the next burst, the last one is removed
		for burst := 0; burst < 7; burst++ {
			b := burst
			var wg sync.WaitGroup
			gate := make(chan bool)
			for k := 0; k < 8; k++ {
				wg.Add(1)
				go func(k int) {
					defer wg.Done()
					<-gate
					c.Add(ctx, "cx", "+300ms", func(t time.Time) error {
						atomic.AddInt64(&burstFires[b], 1)
						return nil
					})
				}(k)
			}
			close(gate)
			wg.Wait()
			if msg, n := timelineOK(c); msg != "" || n != 1 {
				r.Violate("", fmt.Sprintf("after 8 concurrent Adds of one id there are %d pending entries (%s)", n, msg), rep.J{"run": spec, "burst": burst})
			}
			if burst == 0 {
				quiet(ms(1900))
			}
		}
		// the last burst's survivor is removed before it is due
		c.Rem(ctx, "cx")
		quiet(ms(1900))
		r.Count("concurrent_add_bursts", 7)
		if n := atomic.LoadInt64(&burstFires[0]); n != 1 {
			if canaryOK() {
				r.Violate("", fmt.Sprintf("8 concurrent Adds of a one-shot job under one id led to %d fires (exactly one job is pending afterwards)", n), rep.J{"run": spec})
			} else {
				r.Inconclusive("canary late")
			}
		}
		for b := 1; b < 7; b++ {
			if n := atomic.LoadInt64(&burstFires[b]); n != 0 {
				r.Violate("", fmt.Sprintf("a job added by concurrent Adds and replaced or removed before it was due fired %d time(s)", n), rep.J{"run": spec, "burst": b})
			}
		}
	case "recurring":
		addRec("j0")
		add("j1", ms(300))
		quiet(ms(3300))
		rem("j0")
		quiet(ms(1300))
	default: // random mix with directed quiet periods
		n := 6 + rng.Intn(10)
		for i := 0; i < n; i++ {
			id := pool[rng.Intn(len(pool))]
			switch rng.Intn(10) {
			case 0, 1, 2, 3, 4:
				add(id, ms(50+rng.Intn(750)))
			case 5, 6:
				rem(id)
			case 7:
				ctl("suspend")
				time.Sleep(ms(20 + rng.Intn(150)))
				if rng.Intn(2) == 0 {
					add(id, ms(30+rng.Intn(100)))
				}
				ctl("resume")
			case 8:
				ctl("pause")
			default:
				quiet(ms(100 + rng.Intn(500)))
			}
			time.Sleep(ms(rng.Intn(60)))
		}
		quiet(ms(2500))
	}
	// canary: a timer armed now must fire on time for bounded-progress verdicts to count
	cstart := time.Now()
	time.Sleep(50 * time.Millisecond)
	canaryLate := time.Since(cstart) - 50*time.Millisecond
	end := l.now()
	if msg, pending := timelineOK(c); msg != "" {
		r.Violate("", msg, rep.J{"run": spec})
	} else {
		r.Note("last_pending", pending)
	}
	c.Kill(ctx)
	l.mu.Lock()
	evs := append([]ev{}, l.evs...)
	l.mu.Unlock()
	check(r, spec, evs, end, canaryLate)
}

// check is the offline log checker.
func check(r *rep.Report, spec runSpec, evs []ev, end int64, canaryLate time.Duration) {
	sort.SliceStable(evs, func(i, j int) bool { return evs[i].Call < evs[j].Call })
	wit := rep.J{"run": spec, "log": evs, "end_ns": end}
	type life struct {
		add          ev
		fires        []ev
		endedBy      *ev // rem (found or not) or replacing add
		replacedOrRm bool
	}
	lives := map[string]*life{}
	key := func(id string, gen int) string { return fmt.Sprintf("%s#%d", id, gen) }
	var windows [][2]int64 // suspend/pause windows (from call of suspend/pause to return of resume / pause end)
	var susStart int64 = -1
	for i := range evs {
		e := evs[i]
		switch e.T {
		case "add":
			if e.Err != "" {
				r.Violate("", "Add failed: "+e.Err, wit)
				continue
			}
			lives[key(e.Id, e.Gen)] = &life{add: e}
			if prev, ok := lives[key(e.Id, e.Gen-1)]; ok && prev.endedBy == nil {
				ee := e
				prev.endedBy = &ee
			}
		case "rem":
			if lf, ok := lives[key(e.Id, e.Gen)]; ok && lf.endedBy == nil {
				ee := e
				lf.endedBy = &ee
			}
		case "fire":
			if lf, ok := lives[key(e.Id, e.Gen)]; ok {
				lf.fires = append(lf.fires, e)
			} else {
				r.Violate("", "a job fired that was never added", wit)
			}
		case "suspend":
			if susStart < 0 {
				susStart = e.Call
			}
		case "resume":
			if susStart >= 0 {
				windows = append(windows, [2]int64{susStart, e.Ret})
				susStart = -1
			}
		case "pause":
			windows = append(windows, [2]int64{e.Call, e.Ret + (150 * time.Millisecond).Nanoseconds() + (50 * time.Millisecond).Nanoseconds()})
		}
	}
	if susStart >= 0 {
		windows = append(windows, [2]int64{susStart, end})
	}
	inWindow := func(a, b int64) bool {
		for _, w := range windows {
			if a < w[1] && w[0] < b {
				return true
			}
		}
		return false
	}
	grace := (1500 * time.Millisecond).Nanoseconds()
	for _, lf := range lives {
		a := lf.add
		nontrivial := lf.endedBy != nil || inWindow(a.Call, a.Ret+a.DueMs*1e6+grace)
		r.Case(nontrivial, fmt.Sprint(spec, a.Id, a.Gen))
		r.Count("job_lives", 1)
		lw := rep.J{"run": spec, "job": a, "fires": lf.fires, "ended_by": lf.endedBy, "log": evs}
		if a.Rec {
			// every-second job: the i-th fire is not before the i-th occurrence after the add
			for i, f := range lf.fires {
				// occurrences are whole seconds of the wall clock; the i-th one is at least i seconds
				// (minus <1 s for the first) after the add call
				minNs := a.Call + int64(i)*1e9
				if f.Call < minNs {
					r.Violate("", fmt.Sprintf("fire %d of a recurring job came before its occurrence (more fires than occurrences)", i+1), lw)
					break
				}
			}
			if lf.endedBy == nil && end-a.Ret > (5500*time.Millisecond).Nanoseconds() && !inWindow(end-(3500*time.Millisecond).Nanoseconds(), end) {
				// bounded progress of a live every-second job whose callbacks take < 2.4 s: some run
				// ended in the last 3.5 s of the run
				recent := false
				for _, f := range lf.fires {
					if f.Ret > end-(3500*time.Millisecond).Nanoseconds() {
						recent = true
					}
				}
				if !recent {
					if canaryLate > 500*time.Millisecond {
						r.Inconclusive("canary late")
					} else {
						r.Violate("", "a live recurring job completed no run in the last 3.5 s of the run (the loop is not suspended or paused)", lw)
					}
				}
			}
			if lf.endedBy != nil && (lf.endedBy.T == "rem" || lf.endedBy.T == "add") {
				late := 0
				for _, f := range lf.fires {
					// a fire that starts well after the Rem returned (one run may have been in flight)
					if f.Call > lf.endedBy.Ret+(1100*time.Millisecond).Nanoseconds() {
						late++
					}
				}
				if late > 0 {
					k := ""
					_ = k
					r.Violate(k, fmt.Sprintf("a recurring job fired %d more time(s) more than 1.1 s after its Rem (or the Add that replaced it) had returned", late), lw)
				}
			}
			continue
		}
		due := a.Call + a.DueMs*1e6
		for _, f := range lf.fires {
			if f.Call < due {
				r.Violate("", fmt.Sprintf("a job fired %.1f ms before its due time", float64(due-f.Call)/1e6), lw)
			}
		}
		if len(lf.fires) > 1 {
			r.Violate("", fmt.Sprintf("a one-shot job fired %d times", len(lf.fires)), lw)
		}
		if lf.endedBy != nil {
			// removed / replaced: if that returned before the earliest due time, it must never fire
			if lf.endedBy.Ret < due && len(lf.fires) > 0 {
				r.Violate("", "a job removed (or replaced) before it was due fired anyway", lw)
			}
			continue
		}
		// bounded progress: not removed, not overlapping a suspend/pause window, due + grace inside the run
		latest := a.Ret + a.DueMs*1e6
		if len(lf.fires) == 0 && latest+grace < end && !inWindow(a.Call, latest+grace) {
			if canaryLate > 500*time.Millisecond {
				r.Inconclusive("canary late")
				continue
			}
			r.Violate(stallKey(evs, a), fmt.Sprintf("a one-shot job has not fired %.0f ms after it was due (the loop is not suspended or paused)", float64(end-latest)/1e6), lw)
		}
		// suspension only delays: in the runs that use nothing but the broadcaster (no pauses queued behind
		// one another, no local commands) a job whose life overlaps a suspension fires within the grace
		// period after the later of its due time and the end of the last suspension
		if strings.HasPrefix(spec.Pattern, "broadcast-") && len(lf.fires) == 0 && susStart < 0 {
			l2 := latest
			for _, w := range windows {
				if w[1] > l2 {
					l2 = w[1]
				}
			}
			if l2+grace < end && inWindow(a.Call, latest+grace) {
				if canaryLate > 500*time.Millisecond {
					r.Inconclusive("canary late")
					continue
				}
				r.Violate("", fmt.Sprintf("a one-shot job has not fired %.0f ms after it was due and the broadcaster's last Resume had returned (the broadcaster is not suspended)", float64(end-l2)/1e6), lw)
			}
		}
	}
	if r.WantSample() {
		r.Sample(rep.J{"run": spec, "events": len(evs), "log_head": evs[:minInt(10, len(evs))]})
	}
	_ = wit
}

// stallKey: classifier for the (fixed) head-removal stall – kept for reference, no open finding uses it.
func stallKey(evs []ev, a ev) string { return "" }

func minInt(a, b int) int {
	if a < b {
		return a
	}
	return b
}

func main() {
	e := rep.GetEnv()
	r := rep.New(e)
	r.Note("hooks_compiled_in", hook.Enabled())
	patterns := []string{"rem-head-then-quiet", "replace-head-later", "add-earlier-than-head", "add-during-suspend", "broadcast-suspend-resume-back-to-back", "broadcast-double-suspend", "broadcast-resume-suspend-resume", "pause", "rem-recurring-during-run", "replace-recurring-during-run", "replace-recurring-both-running", "rem-readd-recurring-both-running", "recurring-callback-error", "command-burst", "reversed-range-schedule", "recurring-at-the-limit", "no-occurrence-schedule", "concurrent-adds-one-id", "recurring", "random", "random", "random"}
	rounds := e.Pick(1, 4)
	var wg sync.WaitGroup
	for round := 0; round < rounds; round++ {
		for i, p := range patterns {
			wg.Add(1)
			spec := runSpec{Seed: e.BatchSeed()*1000 + int64(round*100+i), Pattern: p}
			r.Journal(spec)
			go func(spec runSpec) {
				defer wg.Done()
				if round%2 == 1 {
					hook.Delays(spec.Seed, 0.5, 20*time.Millisecond, "cron.resched.gap")
				}
				oneRun(r, spec)
			}(spec)
		}
		wg.Wait()
	}
	r.Write()
	fmt.Fprintf(os.Stderr, "c16 mem batch %d: %d evaluations\n", e.Batch, r.Evaluations)
	os.Exit(0)
}
