// Monitor for C15: scheduled rules run when due, per location, and never
// after removal.  The harness's recording Cronner (lib/cronner) is wired to
// real locations; after every step of generated histories the registrations
// must equal the model's live scheduled rules per location, and a tick
// delivered for every (current or former) registration must run exactly the
// live rule of that id in its own location.  A timed scenario runs the real
// built-in cron through sys.System.
package main

import (
	"encoding/json"
	"fmt"
	"io/ioutil"
	"net/http"
	"net/http/httptest"
	"os"
	"sort"
	"strings"
	"sync"
	"time"

	"github.com/Comcast/rulio/core"
	"github.com/Comcast/rulio/cron"
	"github.com/Comcast/rulio/sys"

	"verif/lib/cronner"
	"verif/lib/drv"
	"verif/lib/gen"
	"verif/lib/ref"
	"verif/lib/rep"
)

type op struct {
	Op    string `json:"op"`
	Loc   string `json:"loc,omitempty"`
	Id    string `json:"id,omitempty"`
	Sched string `json:"schedule,omitempty"`
	Ver   string `json:"ver,omitempty"`
	Dep   string `json:"deleteWith,omitempty"`
}

type world struct {
	kind       string
	persistent bool
	rec        *cronner.Recorder
	stores     map[string]*core.MemStorage
	locs       map[string]*core.Location
	m          map[string]*ref.Loc
	former     map[string]bool // loc\x00id ever registered
	run        []op
}

var locNames = []string{"A", "B", "C"}

func (w *world) open(name string) error {
	ctx := drv.Ctx()
	st, err := drv.NewState(ctx, w.kind, name, w.stores[name])
	if err != nil {
		return err
	}
	cron.AddHooks(ctx, w.rec, st)
	loc, err := core.NewLocation(ctx, name, st, nil)
	if err != nil {
		return err
	}
	w.locs[name] = loc
	return nil
}

func newWorld(kind string, persistent bool) (*world, error) {
	w := &world{kind: kind, persistent: persistent, rec: cronner.New(persistent), stores: map[string]*core.MemStorage{}, locs: map[string]*core.Location{}, m: map[string]*ref.Loc{}, former: map[string]bool{}}
	for _, n := range locNames {
		w.stores[n] = drv.MustMem()
		w.m[n] = ref.NewLoc(n)
		if err := w.open(n); err != nil {
			return nil, err
		}
	}
	return w, nil
}

func schedRule(loc, id, sched, ver string) map[string]interface{} {
	m := map[string]interface{}{"schedule": sched, "action": map[string]interface{}{"code": fmt.Sprintf("location + ':%s:%s'", id, ver)}}
	if len(ver) > 0 && (ver[len(ver)-1]-'0')%3 == 0 {
		// every third version has a condition without a solution: the tick evaluates the rule, no
		// action runs, and a one-shot rule is gone afterwards all the same
		m["condition"] = map[string]interface{}{"pattern": map[string]interface{}{"nosuch": "?z"}}
	}
	return m
}

func ordRule(id, ver string) map[string]interface{} {
	return map[string]interface{}{"when": map[string]interface{}{"pattern": map[string]interface{}{"e": id}}, "action": map[string]interface{}{"code": fmt.Sprintf("'%s:%s'", id, ver)}}
}

func (w *world) apply(r *rep.Report, o op) error {
	w.run = append(w.run, o)
	r.Journal(rep.J{"state": w.kind, "persistent": w.persistent, "op": o})
	ctx := drv.Ctx()
	var err error
	switch o.Op {
	case "addSched":
		rm := schedRule(o.Loc, o.Id, o.Sched, o.Ver)
		if o.Dep != "" {
			rm["deleteWith"] = []interface{}{o.Dep}
		}
		_, err = w.locs[o.Loc].AddRule(ctx, o.Id, core.Map(ref.CloneMap(rm)))
		if err == nil {
			wrap := map[string]interface{}{"rule": rm}
			if o.Dep != "" {
				wrap["deleteWith"] = []interface{}{o.Dep}
			}
			w.m[o.Loc].Put(o.Id, wrap)
		}
	case "addRule":
		rm := ordRule(o.Id, o.Ver)
		_, err = w.locs[o.Loc].AddRule(ctx, o.Id, core.Map(ref.CloneMap(rm)))
		if err == nil {
			w.m[o.Loc].Put(o.Id, map[string]interface{}{"rule": rm})
		}
	case "addFact":
		f := map[string]interface{}{"plain": o.Ver}
		_, err = w.locs[o.Loc].AddFact(ctx, o.Id, core.Map(ref.CloneMap(f)))
		if err == nil {
			w.m[o.Loc].Put(o.Id, f)
		}
	case "refusedOverwrite":
		// a write over the id that the cron's add hook refuses (a `rule` that is not a rule body, a
		// schedule that is not a string): it must be refused without any effect, also on the registrations
		bad := []core.Map{{"rule": 5.0}, {"rule": map[string]interface{}{"schedule": 7.0, "action": map[string]interface{}{"code": "1"}}}}[len(w.run)%2]
		_, aerr := w.locs[o.Loc].AddFact(ctx, o.Id, bad)
		if aerr == nil {
			err = fmt.Errorf("a fact the cron hook cannot take was accepted: %v", bad)
		}
	case "remRule":
		_, err = w.locs[o.Loc].RemRule(ctx, o.Id)
		if err == nil {
			w.m[o.Loc].Rem(o.Id)
		}
	case "remFact":
		_, err = w.locs[o.Loc].RemFact(ctx, o.Id)
		if err == nil {
			w.m[o.Loc].Rem(o.Id)
		}
	case "disable", "enable":
		err = w.locs[o.Loc].EnableRule(ctx, o.Id, o.Op == "enable")
		if err == nil {
			pid := ref.PropId(o.Id, "disabled")
			if o.Op == "enable" {
				w.m[o.Loc].Rem(pid)
			} else {
				w.m[o.Loc].Put(pid, map[string]interface{}{"id": o.Id, "!disabled": true, "deleteWith": []interface{}{o.Id}})
			}
		}
	case "clear":
		err = w.locs[o.Loc].Clear(ctx)
		if err == nil {
			w.m[o.Loc].Clear()
		}
	case "reload":
		// a restart: an ephemeral cron service has lost its jobs
		if !w.persistent {
			w.rec.Reset()
		}
		for _, n := range locNames {
			if e2 := w.open(n); e2 != nil {
				err = e2
			}
		}
	}
	return err
}

func (w *world) liveSched(loc string) map[string]string {
	out := map[string]string{}
	for id, it := range w.m[loc].Items {
		if rb := ref.RuleBody(it); rb != nil {
			if s, ok := rb["schedule"].(string); ok {
				out[id] = s
			}
		}
	}
	return out
}

// stepKind explains a stale registration by the kind of step that should have removed it.
func (w *world) staleKey(loc, id string) string {
	// walk back to the step that made (loc,id) stop being a live scheduled rule
	for i := len(w.run) - 1; i >= 0; i-- {
		o := w.run[i]
		if o.Loc != loc && o.Op != "reload" {
			continue
		}
		switch o.Op {
		case "addRule", "addFact":
			if o.Id == id {
				return "c15.overwrite-no-rem"
			}
		case "clear":
			if w.kind == "linear" {
				return "c15.linear-clear-no-rem"
			}
			return ""
		case "remRule", "remFact":
			if o.Id == id {
				return "" // the explicit removal must have removed the registration
			}
			return "c15.cascade-no-rem" // removed as a dependent of another id
		case "expire":
			return "c15.expiry-no-rem"
		case "addSched":
			if o.Id == id {
				return ""
			}
		}
	}
	return ""
}

func (w *world) check(r *rep.Report, changed bool) {
	wit := func(extra rep.J) rep.J {
		x := rep.J{"state": w.kind, "persistent_cron": w.persistent, "history": w.run}
		for k, v := range extra {
			x[k] = v
		}
		return x
	}
	reg := map[string]map[string]string{}
	for _, j := range w.rec.Jobs() {
		if reg[j.Location] == nil {
			reg[j.Location] = map[string]string{}
		}
		reg[j.Location][j.Id] = j.Schedule
		w.former[j.Location+"\x00"+j.Id] = true
	}
	for _, loc := range locNames {
		live := w.liveSched(loc)
		for id, s := range live {
			if got, ok := reg[loc][id]; !ok {
				r.Violate("", "a live scheduled rule is not registered with the cron service", wit(rep.J{"location": loc, "id": id, "schedule": s}))
			} else if got != s {
				r.Violate("", "a scheduled rule is registered with another schedule than the stored one", wit(rep.J{"location": loc, "id": id, "registered": got, "stored": s}))
			}
		}
		for id := range reg[loc] {
			if _, ok := live[id]; !ok {
				key := w.staleKey(loc, id)
				r.Violate(key, "a registration outlives its scheduled rule (the rule was removed, replaced, expired or cleared)", wit(rep.J{"location": loc, "id": id}))
				w.rec.Drop(loc, id) // reported once
			}
		}
	}
	// ticks: one for every current or former registration
	keys := []string{}
	for k := range w.former {
		keys = append(keys, k)
	}
	sort.Strings(keys)
	ticks := 0
	for _, k := range keys {
		p := strings.SplitN(k, "\x00", 2)
		loc, id := p[0], p[1]
		live := w.liveSched(loc)
		sched, isLive := live[id]
		var ver string
		unsat := false
		if isLive {
			rb := ref.RuleBody(w.m[loc].Items[id])
			code := fmt.Sprint(rb["action"].(map[string]interface{})["code"])
			ver = strings.TrimSuffix(code[strings.LastIndex(code, ":")+1:], "'")
			_, unsat = rb["condition"]
		}
		fr, cond := w.locs[loc].ProcessEvent(drv.Ctx(), core.Map{"trigger!": id})
		ticks++
		vals := []string{}
		for _, v := range fr.Values {
			vals = append(vals, fmt.Sprint(v))
		}
		tw := wit(rep.J{"tick_location": loc, "tick_id": id, "values": vals, "condition": cond})
		if isLive && w.m[loc].Disabled(id) {
			// a disabled scheduled rule stays registered but its ticks run nothing
			if len(vals) > 0 {
				r.Violate("", "a tick ran a scheduled rule that is disabled in its location", tw)
			}
			continue
		}
		if !isLive {
			if len(vals) > 0 {
				r.Violate("", "a tick for a removed / replaced / expired / cleared scheduled rule ran something", tw)
			}
			continue
		}
		want := fmt.Sprintf("%s:%s:%s", loc, id, ver)
		if unsat {
			if len(vals) != 0 || cond != nil {
				r.Violate("", "a due tick of a scheduled rule whose condition has no solution ran an action or failed", tw)
				continue
			}
			r.Count("ticks_of_rules_with_unsatisfied_condition", 1)
		} else if len(vals) != 1 || vals[0] != want {
			r.Violate("", fmt.Sprintf("a due tick did not run exactly the scheduled rule in its own location (want [%s])", want), tw)
			continue
		}
		if core.OneShotSchedule(sched) {
			// ran once: the rule is deleted and unregistered
			w.m[loc].Rem(id)
			if _, err := w.locs[loc].GetFact(drv.Ctx(), id); err == nil {
				r.Violate("", "a one-shot scheduled rule still exists after it ran", tw)
			}
			for _, j := range w.rec.Jobs() {
				if j.Location == loc && j.Id == id {
					r.Violate("", "a one-shot scheduled rule is still registered after it ran", tw)
					w.rec.Drop(loc, id)
				}
			}
		}
	}
	r.Count("ticks_delivered", ticks)
	r.Case(changed || ticks > 0, w.kind+fmt.Sprint(w.persistent)+ref.Canon(w.run))
	if changed && r.WantSample() {
		r.Sample(rep.J{"state": w.kind, "persistent_cron": w.persistent, "history": w.run, "registered": w.rec.Jobs()})
	}
}

func campaign(r *rep.Report, e rep.Env) {
	nHist := e.Pick(40, 400)
	ids := []string{"s1", "s2"}
	// directed: cascade delete of a scheduled rule (listed finding) as an ordinary case
	for _, kind := range drv.Kinds {
		if w, err := newWorld(kind, true); err == nil {
			for _, o := range []op{{Op: "addFact", Loc: "A", Id: "dep", Ver: "d1"}, {Op: "addSched", Loc: "A", Id: "s1", Sched: "0 0 1 1 *", Ver: "v1", Dep: "dep"}, {Op: "remFact", Loc: "A", Id: "dep"}} {
				w.apply(r, o)
				w.check(r, true)
			}
		}
	}
	// directed: writes over a scheduled rule that the cron's add hook refuses
	for _, kind := range drv.Kinds {
		for _, persistent := range []bool{true, false} {
			if w, err := newWorld(kind, persistent); err == nil {
				for _, o := range []op{{Op: "addSched", Loc: "A", Id: "s1", Sched: "0 0 1 1 *", Ver: "v1"}, {Op: "refusedOverwrite", Loc: "A", Id: "s1"}, {Op: "refusedOverwrite", Loc: "A", Id: "s1"}} {
					if err := w.apply(r, o); err != nil {
						r.Violate("", "operation failed: "+err.Error(), rep.J{"state": kind, "history": w.run})
					}
					w.check(r, true)
				}
			}
		}
	}
	for hi := 0; hi < nHist; hi++ {
		g := gen.New(e.BatchSeed()*553105253 + int64(hi))
		kind := drv.Kinds[hi%2]
		persistent := (hi/2)%2 == 0
		w, err := newWorld(kind, persistent)
		if err != nil {
			r.Violate("", "cannot build world: "+err.Error(), nil)
			continue
		}
		steps := 8 + g.Intn(14)
		ver := 0
		for s := 0; s < steps; s++ {
			o := op{Loc: locNames[g.Intn(3)], Id: ids[g.Intn(2)]}
			ver++
			o.Ver = fmt.Sprintf("v%d", ver)
			switch k := g.Intn(20); {
			case k < 7:
				o.Op = "addSched"
				o.Sched = []string{"+10000h", "0 0 1 1 *", "!2100-01-01T00:00:00Z"}[g.Intn(3)]
				if g.Intn(4) == 0 {
					o.Dep = "dep"
				}
			case k < 9:
				o.Op = "addRule"
			case k < 10:
				o.Op = "addFact"
			case k < 13:
				o.Op = "remRule"
			case k < 14:
				o.Op = "remFact"
			case k < 16:
				// the target of deleteWith: add it or remove it (cascade)
				o.Id = "dep"
				if g.Intn(2) == 0 {
					o.Op = "addFact"
				} else {
					o.Op = "remFact"
				}
			case k < 17:
				o.Op = []string{"clear", "disable", "enable", "refusedOverwrite"}[g.Intn(4)]
			default:
				o.Op = "reload"
			}
			before := fmt.Sprint(w.liveSched("A"), w.liveSched("B"), w.liveSched("C"))
			if err := w.apply(r, o); err != nil {
				if strings.Contains(err.Error(), "not found") && (o.Op == "remRule" || o.Op == "remFact" || o.Op == "enable") {
					// with cron hooks installed the remove-hook looks the id up first: removing an
					// absent id is an error and changes nothing (operation not acknowledged)
					r.Count("rem_of_absent_id", 1)
					w.run = w.run[:len(w.run)-1]
					continue
				}
				r.Violate("", "operation failed: "+err.Error(), rep.J{"state": kind, "history": w.run})
				break
			}
			after := fmt.Sprint(w.liveSched("A"), w.liveSched("B"), w.liveSched("C"))
			w.check(r, before != after || o.Op == "reload")
		}
	}
}

// expiry: a scheduled rule with a ttl expires; its registration must go.
func expiry(r *rep.Report) {
	type pend struct{ w *world }
	var ws []*world
	for _, kind := range drv.Kinds {
		w, _ := newWorld(kind, true)
		rm := schedRule("A", "s1", "0 0 1 1 *", "v1")
		rm["ttl"] = 1.0
		w.locs["A"].AddRule(drv.Ctx(), "s1", core.Map(ref.CloneMap(rm)))
		w.run = append(w.run, op{Op: "addSched", Loc: "A", Id: "s1", Sched: "0 0 1 1 * (ttl 1s)"})
		ws = append(ws, w)
	}
	// a location with scheduled rules and a plain fact that will have expired, unobserved, when it is cleared
	var cs []*world
	for _, kind := range drv.Kinds {
		w, _ := newWorld(kind, true)
		for i := 1; i <= 5; i++ {
			id := fmt.Sprintf("c%d", i)
			w.locs["B"].AddRule(drv.Ctx(), id, core.Map(schedRule("B", id, "0 0 1 1 *", "v1")))
			w.run = append(w.run, op{Op: "addSched", Loc: "B", Id: id, Sched: "0 0 1 1 *"})
		}
		for i := 1; i <= 3; i++ {
			w.locs["B"].AddFact(drv.Ctx(), fmt.Sprintf("shortlived%d", i), core.Map{"n": float64(i), "ttl": 1.0})
		}
		cs = append(cs, w)
	}
	time.Sleep(2200 * time.Millisecond)
	for _, w := range cs {
		err := w.locs["B"].Clear(drv.Ctx())
		left, _ := w.locs["B"].StateSize(drv.Ctx())
		var jobs []string
		for _, j := range w.rec.Jobs() {
			if j.Location == "B" {
				jobs = append(jobs, j.Id)
			}
		}
		r.Case(true, "clear-with-expired"+w.kind)
		r.Count("clear_with_expired_cases", 1)
		if err != nil || left != 0 || len(jobs) != 0 {
			r.Violate("", "clearing a location that holds scheduled rules and expired, not yet observed facts: the clear fails or leaves rules or registrations behind", rep.J{"state": w.kind, "history": w.run, "clear_error": drv.ErrStr(err), "items_left": left, "jobs_still_registered": jobs})
		}
	}
	for _, w := range ws {
		w.run = append(w.run, op{Op: "expire", Loc: "A", Id: "s1"})
		_, err := w.locs["A"].GetFact(drv.Ctx(), "s1")
		if _, nf := err.(*core.NotFoundError); !nf {
			r.Violate("", "an expired scheduled rule is still observable", rep.J{"state": w.kind})
		}
		w.check(r, true)
	}
}

// builtin: the real in-memory cron through sys.System, one-shot +1s rules with the same id in two locations.
func builtin(r *rep.Report) {
	for variant := 0; variant < 4; variant++ {
		linear := variant%2 == 1
		sharedCtx := variant >= 2 // the client reuses one context for requests to both locations
		ctx := drv.Ctx()
		cr, _ := cron.NewCron(nil, time.Second, "verif", 100000)
		go cr.Start(ctx)
		conf := sys.ExampleConfig()
		conf.UnindexedState = linear
		cont := sys.ExampleSystemControl()
		cont.LocationTTL = sys.Forever
		cont.DefaultLocControl = &core.Control{MaxFacts: 1000, Verbosity: core.NOTHING}
		s, err := sys.NewSystem(ctx, *conf, *cont, &cron.InternalCron{Cron: cr})
		if err != nil {
			r.Violate("", "cannot build system: "+err.Error(), nil)
			return
		}
		rule := `{"schedule":"+1s","action":{"code":"Env.AddFact('fired',{at:location}); location"}}`
		start := time.Now()
		reqCtx := drv.Ctx()
		for _, loc := range []string{"A", "B"} {
			if !sharedCtx {
				reqCtx = drv.Ctx()
			}
			text := rule
			if sharedCtx && loc == "B" {
				// the schedule as a client might write it: blanks around it (the cron service trims them)
				text = strings.Replace(rule, `"+1s"`, `" +1s "`, 1)
			}
			if _, err := s.AddRule(reqCtx, loc, "r", text); err != nil {
				r.Violate("", "AddRule failed: "+err.Error(), nil)
			}
		}
		canary := make(chan time.Duration, 1)
		time.AfterFunc(time.Second, func() { canary <- time.Since(start) })
		time.Sleep(3500 * time.Millisecond)
		late := <-canary - time.Second
		r.Case(true, fmt.Sprint("builtin", linear, sharedCtx))
		r.Journal(rep.J{"builtin_cron": true, "linear": linear, "shared_ctx": sharedCtx})
		if late > time.Second {
			r.Inconclusive("canary late")
			continue
		}
		fired := map[string]bool{}
		still := map[string]bool{}
		for _, loc := range []string{"A", "B"} {
			if f, err := s.GetFact(drv.Ctx(), loc, "fired"); err == nil && strings.Contains(f, `"at":"`+loc+`"`) {
				fired[loc] = true
			}
			if _, err := s.GetFact(drv.Ctx(), loc, "r"); err == nil {
				still[loc] = true
			}
		}
		wit := rep.J{"builtin_cron": true, "linear": linear, "shared_request_context": sharedCtx, "fired": fired, "rule_still_stored": still, "canary_late_ms": late.Milliseconds()}
		if !fired["A"] || !fired["B"] {
			r.Violate("", "two one-shot +1s rules with the same id in two locations: 2.5 s after they were due only one of them has run (the built-in cron keys jobs by rule id alone)", wit)
		} else if still["A"] || still["B"] {
			r.Violate("", "a one-shot scheduled rule still exists after it ran", wit)
		} else {
			r.Sample(wit)
		}
		cr.Kill(ctx)
	}
}

// collisions: the built-in cron serves all locations; (location, rule id) pairs whose
// naive concatenations coincide must still be different jobs.  Every-second rules write
// a tick fact into their own location; after ~2.6 s both locations must have ticked.
func collisions(r *rep.Report) {
	type res struct {
		sep    string
		linear bool
		ticks  map[string]bool
		late   time.Duration
		err    string
	}
	seps := []string{":", "/", ",", "|", ".", "-", "_", " ", "\n", "\x00"}
	out := make(chan res, 2*len(seps))
	n := 0
	for i, sep := range seps {
		n++
		go func(sep string, linear bool) {
			rs := res{sep: sep, linear: linear, ticks: map[string]bool{}}
			ctx := drv.Ctx()
			cr, _ := cron.NewCron(cron.NewCronBroadcaster(), time.Second, "verif-coll", 100000)
			go cr.Start(ctx)
			conf := sys.ExampleConfig()
			conf.UnindexedState = linear
			cont := sys.ExampleSystemControl()
			cont.LocationTTL = sys.Forever
			cont.DefaultLocControl = &core.Control{MaxFacts: 1000, Verbosity: core.NOTHING}
			s, err := sys.NewSystem(ctx, *conf, *cont, &cron.InternalCron{Cron: cr})
			if err != nil {
				rs.err = err.Error()
				out <- rs
				return
			}
			pairs := [][2]string{{"acct", "dev1" + sep + "tick"}, {"acct" + sep + "dev1", "tick"}}
			start := time.Now()
			for _, p := range pairs {
				rule := `{"schedule":"* * * * * * *","action":{"code":"Env.AddFact('ticked',{at:location}); 1"}}`
				if _, err := s.AddRule(drv.Ctx(), p[0], p[1], rule); err != nil {
					rs.err = err.Error()
				}
			}
			canary := make(chan time.Duration, 1)
			time.AfterFunc(time.Second, func() { canary <- time.Since(start) })
			time.Sleep(2600 * time.Millisecond)
			rs.late = <-canary - time.Second
			for _, p := range pairs {
				if f, err := s.GetFact(drv.Ctx(), p[0], "ticked"); err == nil && strings.Contains(f, `"at"`) {
					rs.ticks[p[0]] = true
				}
			}
			cr.Kill(ctx)
			out <- rs
		}(sep, i%2 == 1)
	}
	for i := 0; i < n; i++ {
		rs := <-out
		r.Case(true, fmt.Sprint("collision", rs.sep, rs.linear))
		r.Count("builtin_cron_collision_pairs", 1)
		wit := rep.J{"builtin_cron": true, "linear": rs.linear, "locations": []string{"acct", "acct" + rs.sep + "dev1"}, "rule_ids": []string{"dev1" + rs.sep + "tick", "tick"}, "ticked": rs.ticks, "error": rs.err}
		if rs.err != "" {
			if strings.ContainsAny(rs.sep, "\n\x00") {
				continue // such names may be refused
			}
			r.Violate("", "scheduling an every-second rule failed: "+rs.err, wit)
			continue
		}
		if rs.late > time.Second {
			r.Inconclusive("canary late")
			continue
		}
		if len(rs.ticks) != 2 {
			r.Violate("", "two every-second rules in two locations whose (location, id) pairs concatenate alike: after 2.6 s only one location has ticked (their cron jobs collide)", wit)
		}
	}
}

// restart: an engine over persistent (bolt) storage with a non-persistent cron is shut
// down and a new engine is started on the same file: the first request to the location
// loads it, and that load must register its scheduled rule again.
func restart(r *rep.Report, e rep.Env) {
	for _, linear := range []bool{false, true} {
		path := fmt.Sprintf("%s/c15-restart-%v.db", e.Out, linear)
		os.Remove(path)
		mk := func(rec *cronner.Recorder) (*sys.System, error) {
			conf := sys.ExampleConfig()
			conf.Storage = "bolt"
			conf.StorageConfig = path
			conf.UnindexedState = linear
			cont := sys.ExampleSystemControl()
			cont.LocationTTL = sys.Forever
			cont.DefaultLocControl = &core.Control{MaxFacts: 1000, Verbosity: core.NOTHING}
			return sys.NewSystem(drv.Ctx(), *conf, *cont, rec)
		}
		rec1 := cronner.New(false)
		s1, err := mk(rec1)
		if err != nil {
			r.Violate("", "cannot build a bolt-backed system: "+err.Error(), nil)
			continue
		}
		rule := `{"schedule":"0 0 1 1 *","action":{"code":"'tick'"}}`
		if _, err := s1.AddRule(drv.Ctx(), "R", "sched", rule); err != nil {
			r.Violate("", "AddRule failed: "+err.Error(), nil)
		}
		s1.Close(drv.Ctx())
		rec2 := cronner.New(false) // the restarted process has an empty in-memory cron
		s2, err := mk(rec2)
		if err != nil {
			r.Violate("", "cannot restart on the bolt file: "+err.Error(), nil)
			continue
		}
		_, gerr := s2.GetRule(drv.Ctx(), "R", "sched") // first request: loads the location
		jobs := rec2.Jobs()
		r.Case(true, fmt.Sprint("restart", linear))
		r.Count("restarts", 1)
		wit := rep.J{"restart_on_bolt": true, "linear": linear, "registered_before": rec1.Jobs(), "registered_after_restart": jobs, "get_rule_error": drv.ErrStr(gerr)}
		if gerr != nil {
			r.Violate("", "the scheduled rule is not there after the restart: "+gerr.Error(), wit)
		} else if len(jobs) != 1 || jobs[0].Id != "sched" || jobs[0].Location != "R" {
			r.Violate("", "with a non-persistent cron a location loaded after a restart did not register its scheduled rule again", wit)
		}
		s2.Close(drv.Ctx())
		os.Remove(path)
	}
}

// noOccurrence: schedules that are well-formed but have no (further) occurrence, on the built-in
// cron.  Replacing a ticking rule by such a rule is either refused (then the old rule keeps
// ticking) or accepted (then nothing ticks); a location that holds such a rule still loads.
func noOccurrence(r *rep.Report, e rep.Env) {
	for _, linear := range []bool{false, true} {
		path := fmt.Sprintf("%s/c15-noocc-%v.db", e.Out, linear)
		os.Remove(path)
		mk := func() (*sys.System, *cron.Cron, error) {
			ctx := drv.Ctx()
			cr, _ := cron.NewCron(cron.NewCronBroadcaster(), time.Second, "verif-noocc", 100000)
			go cr.Start(ctx)
			conf := sys.ExampleConfig()
			conf.Storage = "bolt"
			conf.StorageConfig = path
			conf.UnindexedState = linear
			cont := sys.ExampleSystemControl()
			cont.LocationTTL = sys.Forever
			cont.DefaultLocControl = &core.Control{MaxFacts: 1000, Verbosity: core.NOTHING}
			s, err := sys.NewSystem(ctx, *conf, *cont, &cron.InternalCron{Cron: cr})
			return s, cr, err
		}
		s, cr, err := mk()
		if err != nil {
			r.Violate("", "cannot build system: "+err.Error(), nil)
			continue
		}
		tick := `{"schedule":"* * * * * * *","action":{"code":"Env.AddFact('t' + Math.floor(Math.random()*1e9), {at:location}); 1"}}`
		never := `{"schedule":"0 0 0 30 2 * *","action":{"code":"Env.AddFact('never',{at:location}); 1"}}`
		start := time.Now()
		canary := make(chan time.Duration, 1)
		time.AfterFunc(time.Second, func() { canary <- time.Since(start) })
		_, e1 := s.AddRule(drv.Ctx(), "N", "r", tick)
		s.AddFact(drv.Ctx(), "N", "plain", `{"a":1}`)
		time.Sleep(1300 * time.Millisecond)
		_, e2 := s.AddRule(drv.Ctx(), "N", "r", never)  // replacement
		_, e3 := s.AddRule(drv.Ctx(), "N", "r2", never) // a new rule of that kind
		time.Sleep(200 * time.Millisecond)
		count := func(s *sys.System) int {
			srs, err := s.SearchFacts(drv.Ctx(), "N", `{"at":"?l"}`, false)
			if err != nil {
				return -1
			}
			return len(srs.Found)
		}
		before := count(s)
		time.Sleep(2300 * time.Millisecond)
		after := count(s)
		late := <-canary - time.Second
		stored, gerr := s.GetRule(drv.Ctx(), "N", "r")
		cr.Kill(drv.Ctx())
		s.Close(drv.Ctx())
		// the restarted process loads the location (and whatever rules it holds) again
		s2, cr2, err := mk()
		perr := err
		if err == nil {
			_, perr = s2.GetFact(drv.Ctx(), "N", "plain")
			cr2.Kill(drv.Ctx())
			s2.Close(drv.Ctx())
		}
		os.Remove(path)
		r.Case(true, fmt.Sprint("no-occurrence", linear))
		r.Count("no_occurrence_rule_cases", 1)
		wit := rep.J{"linear": linear, "add_ticking_rule": drv.ErrStr(e1), "replace_by_never_rule": drv.ErrStr(e2), "add_never_rule": drv.ErrStr(e3), "ticks_before": before, "ticks_after": after, "stored_rule_r": stored, "get_rule_error": drv.ErrStr(gerr), "plain_fact_after_restart": drv.ErrStr(perr)}
		if late > time.Second {
			r.Inconclusive("canary late")
			continue
		}
		if e1 != nil || before < 1 {
			r.Violate("", "an every-second rule on the built-in cron did not tick", wit)
			continue
		}
		if perr != nil {
			r.Violate("", "after a restart a location that holds a rule whose schedule has no occurrence cannot be loaded", wit)
			continue
		}
		if e2 != nil {
			// refused: the old rule is still the stored one and must keep ticking
			if !strings.Contains(stored, "* * * * * * *") {
				r.Violate("", "a refused replacement of a scheduled rule changed the stored rule", wit)
			} else if after <= before {
				r.Violate("", "a scheduled rule stopped ticking after its replacement by a rule without occurrences was refused", wit)
			}
		} else if after > before+1 {
			r.Violate("", "a scheduled rule keeps ticking after it was replaced by a rule whose schedule has no occurrence", wit)
		}
	}
}

// eventText: what the engine registers with the cron service is a piece of text (the event the
// cron is to send back).  For every rule id, whatever characters it contains, that text must be
// JSON for exactly {"trigger!": id}, and sending it back must run that rule and no other.
func eventText(r *rep.Report) {
	ids := []string{"plain", "tickA", `tick\u0041`, `a"b`, `back\\slash`, `x","evaluate!":{"action":{"code":"1"}},"y":"`, "tab\there", "uni\u00e9"}
	for _, kind := range drv.Kinds {
		w, err := newWorld(kind, false)
		if err != nil {
			r.Violate("", "cannot build world", nil)
			return
		}
		loc := w.locs["A"]
		for _, id := range ids {
			rule := core.Map{"schedule": "0 0 1 1 *", "action": map[string]interface{}{"code": "ruleId"}}
			_, aerr := loc.AddRule(drv.Ctx(), id, rule)
			r.Case(true, "event-text"+kind+id)
			r.Count("event_text_cases", 1)
			if aerr != nil {
				continue // refused: nothing registered, nothing to send back
			}
		}
		for _, j := range w.rec.Jobs() {
			wit := rep.J{"state": kind, "rule_id": j.Id, "registered_event_text": j.Event}
			var ev map[string]interface{}
			if err := json.Unmarshal([]byte(j.Event), &ev); err != nil {
				r.Violate("", "the event registered with the cron service for a scheduled rule is not JSON", wit)
				continue
			}
			if len(ev) != 1 || ev["trigger!"] != j.Id {
				wit["parsed"] = ev
				r.Violate("", "the event registered with the cron service does not name the rule it was registered for", wit)
			}
			fr, cond := loc.ProcessEvent(drv.Ctx(), core.Map(ev))
			vals := []string{}
			if fr != nil {
				for _, v := range fr.Values {
					vals = append(vals, fmt.Sprint(v))
				}
			}
			if cond != nil || len(vals) != 1 || vals[0] != j.Id {
				wit["values"], wit["condition"] = vals, cond
				r.Violate("", "sending back the event registered for a scheduled rule does not run exactly that rule", wit)
			}
		}
	}
}

// reloadedInstance: built-in cron, an every-second rule, the location loaded a second time in the same
// process (as the location cache does after its TTL), then the rule replaced through the new instance
// with the SAME schedule and another action.  From then on ticks run the new action.
func reloadedInstance(r *rep.Report) {
	for _, kind := range drv.Kinds {
		ctx := drv.Ctx()
		cr, _ := cron.NewCron(nil, time.Second, "verif-reload", 100000)
		go cr.Start(ctx)
		ic := &cron.InternalCron{Cron: cr}
		st := drv.MustMem()
		open := func() (*core.Location, error) {
			s, err := drv.NewState(drv.Ctx(), kind, "Z", st)
			if err != nil {
				return nil, err
			}
			cron.AddHooks(drv.Ctx(), ic, s)
			return core.NewLocation(drv.Ctx(), "Z", s, nil)
		}
		rule := func(v string) core.Map {
			return core.Map{"schedule": "* * * * * * *", "action": map[string]interface{}{"code": "Env.AddFact('', {ran:'" + v + "'})"}}
		}
		l1, err := open()
		if err != nil {
			r.Violate("", "cannot build location: "+err.Error(), nil)
			continue
		}
		l1.AddRule(drv.Ctx(), "tick", rule("v1"))
		time.Sleep(1200 * time.Millisecond)
		l2, err := open() // the second instance registers the stored rule again
		if err != nil {
			r.Violate("", "cannot load the location a second time: "+err.Error(), nil)
			continue
		}
		_, aerr := l2.AddRule(drv.Ctx(), "tick", rule("v2"))
		canary := make(chan bool, 1)
		time.AfterFunc(2500*time.Millisecond, func() { canary <- true })
		time.Sleep(2600 * time.Millisecond)
		late := len(canary) == 0
		cr.Kill(ctx)
		count := func(l *core.Location, v string) int {
			srs, err := l.SearchFacts(drv.Ctx(), core.Map{"ran": v}, false)
			if err != nil || srs == nil {
				return -1
			}
			return len(srs.Found)
		}
		l3, _ := drv.NewLoc("Z", kind, st)
		v2 := count(l3, "v2")
		r.Case(true, "reloaded-instance"+kind)
		r.Count("reloaded_instance_cases", 1)
		if late {
			r.Inconclusive("canary late")
			continue
		}
		if aerr != nil || v2 < 1 {
			r.Violate("", "after the location was loaded again and its every-second rule replaced (same schedule, new action), 2.6 s of ticks never ran the new action", rep.J{"state": kind, "replace_error": drv.ErrStr(aerr), "runs_of_the_new_action": v2, "runs_of_the_old_action_in_storage": count(l3, "v1")})
		}
	}
}

// remVsAdd: one client removes the scheduled rule s while another adds s again (scheduled, both
// acknowledged).  In whichever order the two take effect, afterwards s is registered with the cron
// service exactly if it exists.
func remVsAdd(r *rep.Report, e rep.Env) {
	for _, kind := range drv.Kinds {
		w, err := newWorld(kind, true)
		if err != nil {
			r.Violate("", "cannot build world", nil)
			return
		}
		loc := w.locs["A"]
		n := e.Pick(3000, 20000)
		bad := 0
		var first rep.J
		for i := 0; i < n; i++ {
			loc.AddRule(drv.Ctx(), "s", core.Map(schedRule("A", "s", "0 0 1 1 *", "v1")))
			var wg sync.WaitGroup
			start := make(chan bool)
			var remErr, addErr error
			wg.Add(2)
			go func() { defer wg.Done(); <-start; _, remErr = loc.RemRule(drv.Ctx(), "s") }()
			go func() {
				defer wg.Done()
				<-start
				_, addErr = loc.AddRule(drv.Ctx(), "s", core.Map(schedRule("A", "s", "0 0 2 1 *", "v2")))
			}()
			close(start)
			wg.Wait()
			_, gerr := loc.GetRule(drv.Ctx(), "s")
			registered := false
			for _, j := range w.rec.Jobs() {
				if j.Location == "A" && j.Id == "s" {
					registered = true
				}
			}
			if remErr == nil && addErr == nil && (gerr == nil) != registered {
				bad++
				if first == nil {
					first = rep.J{"state": kind, "round": i, "rule_exists": gerr == nil, "registered_with_the_cron_service": registered}
				}
			}
			loc.RemRule(drv.Ctx(), "s")
			w.rec.Drop("A", "s")
		}
		r.Case(true, "rem-vs-add"+kind)
		r.Count("rem_vs_add_rounds", n)
		if bad > 0 {
			first["rounds"], first["rounds_with_this_outcome"] = n, bad
			r.Violate("", "RemRule(s) against AddRule(s) of a scheduled rule: afterwards the rule's existence and its registration with the cron service disagree", first)
		}
	}
}

// croltGlue: the System with the glue for the persistent cron service (cron.CroltSimple) and a
// stand-in for that service which keeps the job table its /add and /rem requests describe
// (account = location, id = rule id; same parameters as crolt's handlers).  After every step the
// table holds exactly the scheduled rules that exist.
func croltGlue(r *rep.Report) {
	type fake struct {
		sync.Mutex
		jobs    map[string]string
		strange []string
	}
	for ki, kind := range drv.Kinds {
		f := &fake{jobs: map[string]string{}}
		mux := http.NewServeMux()
		mux.HandleFunc("/add", func(w http.ResponseWriter, q *http.Request) {
			var job struct {
				Account  string `json:"account"`
				Id       string `json:"id"`
				Schedule string `json:"schedule"`
			}
			b, _ := ioutil.ReadAll(q.Body)
			if json.Unmarshal(b, &job) != nil || job.Account == "" || job.Id == "" {
				http.Error(w, "bad job", 400)
				return
			}
			f.Lock()
			_, exists := f.jobs[job.Account+"\x00"+job.Id]
			if !exists {
				f.jobs[job.Account+"\x00"+job.Id] = job.Schedule
			}
			f.Unlock()
			if exists {
				// as the real service: a job that exists is refused
				http.Error(w, "error creating job: exists", 400)
				return
			}
			fmt.Fprintf(w, `{"job":%s}`, b)
		})
		mux.HandleFunc("/rem", func(w http.ResponseWriter, q *http.Request) {
			a, id := q.FormValue("account"), q.FormValue("id")
			if a == "" || id == "" {
				http.Error(w, "need an account and an id", 400)
				return
			}
			f.Lock()
			delete(f.jobs, a+"\x00"+id)
			f.Unlock()
			fmt.Fprint(w, `{"status":"ok"}`)
		})
		mux.HandleFunc("/", func(w http.ResponseWriter, q *http.Request) {
			f.Lock()
			f.strange = append(f.strange, q.Method+" "+q.URL.String())
			f.Unlock()
			http.NotFound(w, q)
		})
		srv := httptest.NewServer(mux)
		s, err := drv.NewSys(drv.SysOpts{Linear: kind == "linear", TTL: sys.Forever}, &cron.CroltSimple{CroltURL: srv.URL + []string{"", "/"}[ki%2], RulesURL: "http://rules.invalid/api"})
		if err != nil {
			r.Violate("", "cannot build a System with the crolt glue: "+err.Error(), nil)
			srv.Close()
			continue
		}
		want := map[string]string{}
		type step struct{ Op, Loc, Id, Sched string }
		steps := []step{
			{"add", "home", "tick", "0 0 1 1 *"}, {"add", "home", "other", "0 0 2 1 *"}, {"add", "attic", "tick", "0 0 3 1 *"},
			{"rem", "home", "tick", ""}, {"add", "home", "a&b=c", "0 0 4 1 *"}, {"add", "two words", "sp ace", "0 0 5 1 *"}, {"add", "home", "uni\u00e9#1", "0 0 6 1 *"},
			{"add", "home", "other", "0 30 2 1 *"}, {"rem", "home", "a&b=c", ""}, {"rem", "two words", "sp ace", ""}, {"plain", "home", "other", ""}, {"rem", "home", "uni\u00e9#1", ""},
			{"add", "attic", "again", "0 0 7 1 *"}, {"clear", "attic", "", ""},
		}
		var hist []step
		for si, st := range steps {
			hist = append(hist, st)
			var oerr error
			switch st.Op {
			case "add":
				_, oerr = s.AddRule(drv.Ctx(), st.Loc, st.Id, fmt.Sprintf(`{"schedule":%q,"action":{"code":"1"}}`, st.Sched))
				if oerr == nil {
					want[st.Loc+"\x00"+st.Id] = st.Sched
				}
			case "plain":
				_, oerr = s.AddRule(drv.Ctx(), st.Loc, st.Id, `{"when":{"pattern":{"a":"b"}},"action":{"code":"1"}}`)
				if oerr == nil {
					delete(want, st.Loc+"\x00"+st.Id)
				}
			case "rem":
				_, oerr = s.RemRule(drv.Ctx(), st.Loc, st.Id)
				if oerr == nil {
					delete(want, st.Loc+"\x00"+st.Id)
				}
			case "clear":
				oerr = s.ClearLocation(drv.Ctx(), st.Loc)
				if oerr == nil {
					for k := range want {
						if strings.HasPrefix(k, st.Loc+"\x00") {
							delete(want, k)
						}
					}
				}
			}
			r.Case(true, fmt.Sprint("crolt-glue", kind, si))
			r.Count("crolt_glue_steps", 1)
			f.Lock()
			got := map[string]string{}
			for k, v := range f.jobs {
				got[k] = v
			}
			strange := append([]string{}, f.strange...)
			f.Unlock()
			show := func(m map[string]string) []string {
				out := []string{}
				for k, v := range m {
					out = append(out, strings.Replace(k, "\x00", " / ", 1)+" @ "+v)
				}
				sort.Strings(out)
				return out
			}
			wit := rep.J{"state": kind, "history": hist, "error": drv.ErrStr(oerr), "jobs_at_the_cron_service": show(got), "scheduled_rules_that_exist": show(want), "requests_to_unknown_paths": strange}
			if oerr != nil {
				r.Violate("", "an ordinary operation on a scheduled rule failed with the persistent cron glue: "+oerr.Error(), wit)
				break
			}
			if strings.Join(show(got), "\n") != strings.Join(show(want), "\n") {
				r.Violate("", "the jobs held by the (persistent) cron service are not exactly the scheduled rules that exist", wit)
				break
			}
		}
		srv.Close()
	}
}

func main() {
	e := rep.GetEnv()
	r := rep.New(e)
	switch e.Stage {
	case "timed":
		croltGlue(r)
		reloadedInstance(r)
		eventText(r)
		noOccurrence(r, e)
		restart(r, e)
		collisions(r)
		expiry(r)
		builtin(r)
	default:
		if e.Batch == 0 {
			remVsAdd(r, e)
		}
		campaign(r, e)
	}
	r.Write()
	fmt.Fprintf(os.Stderr, "c15 %s batch %d: %d evaluations\n", e.Stage, e.Batch, r.Evaluations)
	os.Exit(0)
}
