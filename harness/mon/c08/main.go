// Monitor for C08: deleteWith removes exactly the dependents, durably, and
// terminates.  Generated dependency graphs (facts, rules, property facts;
// chains, fans, cycles, self-loops, dangling targets) are built in a real
// location over MemStorage; after every deletion the live state, the storage
// contents and the model closure must agree, and the call must return.
package main

import (
	"encoding/json"
	"fmt"
	"os"
	"sort"
	"strings"
	"sync"
	"time"

	"github.com/Comcast/rulio/core"

	"verif/lib/drv"
	"verif/lib/gen"
	"verif/lib/ref"
	"verif/lib/rep"
)

type op struct {
	Op   string   `json:"op"`
	Id   string   `json:"id"`
	Deps []string `json:"deleteWith,omitempty"`
	Ttl  bool     `json:"ttl,omitempty"`
	// ViaJS: the fact is written by a script (Env.AddFact), as a rule action would do it
	ViaJS bool `json:"via_js,omitempty"`
}

type world struct {
	kind  string
	loc   *core.Location
	store *core.MemStorage
	m     *ref.Loc
	used  map[string]bool
	run   []op
}

func newWorld(kind string) *world {
	st := drv.MustMem()
	l, err := drv.NewLoc("G", kind, st)
	if err != nil {
		panic(err)
	}
	return &world{kind: kind, loc: l, store: st, m: ref.NewLoc("G"), used: map[string]bool{}}
}

func deps(ids []string) []interface{} {
	a := make([]interface{}, len(ids))
	for i, s := range ids {
		a[i] = s
	}
	return a
}

// apply returns false when the call did not return (hang) or panicked.
func (w *world) apply(r *rep.Report, o op) bool {
	w.run = append(w.run, o)
	w.used[o.Id] = true
	r.Journal(rep.J{"kind": w.kind, "op": o})
	var err error
	ok, pan := drv.Guard(20*time.Second, func() {
		ctx := drv.Ctx()
		switch o.Op {
		case "addFact":
			f := map[string]interface{}{"v": o.Id}
			if len(o.Deps) > 0 {
				f["deleteWith"] = deps(o.Deps)
			}
			if o.Ttl {
				f["ttl"] = 1.0
			}
			if o.ViaJS {
				fj, _ := json.Marshal(f)
				idj, _ := json.Marshal(o.Id)
				_, err = w.loc.RunJavascript(ctx, "Env.AddFact("+string(idj)+", "+string(fj)+")", nil, nil, nil)
			} else {
				_, err = w.loc.AddFact(ctx, o.Id, core.Map(ref.CloneMap(f)))
			}
			if err == nil {
				delete(f, "ttl")
				w.m.Put(o.Id, f)
			}
		case "addRule":
			rm := map[string]interface{}{"when": map[string]interface{}{"pattern": map[string]interface{}{"e": o.Id}}, "action": map[string]interface{}{"code": "1"}}
			if len(o.Deps) > 0 {
				rm["deleteWith"] = deps(o.Deps)
			}
			_, err = w.loc.AddRule(ctx, o.Id, core.Map(ref.CloneMap(rm)))
			if err == nil {
				wrap := map[string]interface{}{"rule": rm}
				if len(o.Deps) > 0 {
					wrap["deleteWith"] = deps(o.Deps)
				}
				w.m.Put(o.Id, wrap)
			}
		case "disable":
			err = w.loc.EnableRule(ctx, o.Id, false)
			if err == nil {
				w.m.Put(ref.PropId(o.Id, "disabled"), map[string]interface{}{"id": o.Id, "!disabled": true, "deleteWith": []interface{}{o.Id}})
				w.used[ref.PropId(o.Id, "disabled")] = true
			}
		case "enable":
			// removes the "disabled" property of o.Id (if any): whatever names that property id in deleteWith goes too
			err = w.loc.EnableRule(ctx, o.Id, true)
			if err == nil {
				w.m.Rem(ref.PropId(o.Id, "disabled"))
			}
		case "propFact":
			// a property of o.Id written in fact form; it need not say deleteWith (Deps: what it says anyway)
			f := map[string]interface{}{"id": o.Id, "!note": "about " + o.Id}
			if len(o.Deps) > 0 {
				f["deleteWith"] = deps(o.Deps)
			}
			_, err = w.loc.AddFact(ctx, "", core.Map(ref.CloneMap(f)))
			if err == nil {
				w.m.Put(ref.PropId(o.Id, "note"), f)
				w.used[ref.PropId(o.Id, "note")] = true
			}
		case "remFact":
			_, err = w.loc.RemFact(ctx, o.Id)
			if err == nil {
				w.m.Rem(o.Id)
			}
		case "remRule":
			_, err = w.loc.RemRule(ctx, o.Id)
			if err == nil {
				w.m.Rem(o.Id)
				// (the rule's "disabled" property, when there is one, went as a dependent of the rule)
				if _, have := w.m.Items[ref.PropId(o.Id, "disabled")]; have {
					w.m.Rem(ref.PropId(o.Id, "disabled"))
				}
			}
		case "reload":
			// the location is rebuilt from its storage (restart, cache expiry): cascades work as before
			var l2 *core.Location
			l2, err = drv.NewLoc("G", w.kind, w.store)
			if err == nil {
				w.loc = l2
			}
		case "expire":
			// the item was written with ttl 1 at least 2 s ago: observing it deletes it
			_, gerr := w.loc.GetFact(ctx, o.Id)
			if _, nf := gerr.(*core.NotFoundError); !nf {
				err = fmt.Errorf("expired item still observable: %v", gerr)
			}
			w.m.Rem(o.Id)
		}
	})
	wit := rep.J{"state": w.kind, "history": w.run}
	if !ok {
		r.Violate("", "the call did not return within 20 s (cascade does not terminate?)", wit)
		return false
	}
	if pan != "" {
		r.Violate("", "the call panicked: "+pan, wit)
		return false
	}
	if err != nil {
		r.Violate("", "operation failed: "+err.Error(), wit)
		return false
	}
	return true
}

func hasVarId(run []op) bool {
	for _, o := range run {
		if (o.Op == "remFact" || o.Op == "remRule" || o.Op == "expire") && ref.IsVar(o.Id) {
			return true
		}
	}
	return false
}

// observe compares live state, storage and model.
func (w *world) observe(r *rep.Report, nontrivial bool) {
	r.Case(nontrivial, w.kind+ref.Canon(w.run))
	ctx := drv.Ctx()
	live := []string{}
	ids := []string{}
	for id := range w.used {
		ids = append(ids, id)
	}
	sort.Strings(ids)
	for _, id := range ids {
		f, err := w.loc.GetFact(ctx, id)
		if err == nil {
			live = append(live, id)
			if want, ok := w.m.Items[id]; ok {
				g := ref.CloneMap(map[string]interface{}(f))
				delete(g, "expires")
				if rb, ok := g["rule"].(map[string]interface{}); ok {
					delete(rb, "expires")
				}
				if ref.Canon(g) != ref.Canon(want) {
					r.Violate("", "a surviving item changed", rep.J{"state": w.kind, "history": w.run, "id": id, "got": g, "want": want})
				}
			}
		}
	}
	n, _ := w.loc.StateSize(ctx)
	stored := []string{}
	for id := range w.store.State(ctx)["G"] {
		stored = append(stored, id)
	}
	sort.Strings(stored)
	want := w.m.Ids()
	rules, _ := w.loc.ListRules(ctx, false)
	sort.Strings(rules)
	wantRules := w.m.RuleIds()
	if !ref.SameSet(live, want) || !ref.SameSet(stored, want) || n != len(want) || !ref.SameSet(rules, wantRules) {
		key := ""
		if hasVarId(w.run) {
			key = "c08.var-id"
		}
		what := "after the deletion the survivors differ from the model closure:"
		if !ref.SameSet(live, want) || n != len(want) {
			what += " live state"
		}
		if !ref.SameSet(stored, want) {
			what += " storage"
		}
		if !ref.SameSet(rules, wantRules) {
			what += " ListRules"
		}
		r.Violate(key, what, rep.J{"state": w.kind, "history": w.run, "live": live, "stored": stored, "size": n, "rules": rules, "model": want})
		// resynchronise the model so that one divergence is reported once
		return
	}
	if nontrivial && r.WantSample() {
		r.Sample(rep.J{"state": w.kind, "history": w.run, "survivors": want})
	}
}

func genGraph(g *gen.Gen, ids []string, allowTtl bool) []op {
	var ops []op
	n := 3 + g.Intn(len(ids)-2)
	shape := g.Intn(6)
	for i := 0; i < n; i++ {
		id := ids[i]
		o := op{Op: "addFact", Id: id}
		if g.Intn(4) == 0 {
			o.Op = "addRule"
		}
		switch shape {
		case 0: // chain
			if i > 0 {
				o.Deps = []string{ids[i-1]}
			}
		case 1: // fan
			if i > 0 {
				o.Deps = []string{ids[0]}
			}
		case 2: // cycle
			o.Deps = []string{ids[(i+1)%n]}
		default: // random, with self loops and dangling targets
			k := g.Intn(3)
			for j := 0; j < k; j++ {
				switch g.Intn(8) {
				case 0:
					o.Deps = append(o.Deps, id)
				case 1:
					o.Deps = append(o.Deps, "dangling")
				case 2:
					// the target is a property fact (which may or may not exist): a property is a node like any other
					o.Deps = append(o.Deps, ref.PropId(ids[g.Intn(n)], []string{"note", "disabled"}[g.Intn(2)]))
				default:
					o.Deps = append(o.Deps, ids[g.Intn(n)])
				}
			}
		}
		if o.Op == "addFact" && !allowTtl && g.Intn(4) == 0 {
			o.ViaJS = true
		}
		ops = append(ops, o)
		if g.Intn(6) == 0 {
			ops = append(ops, op{Op: "disable", Id: id})
		}
		if g.Intn(5) == 0 {
			po := op{Op: "propFact", Id: id}
			if g.Intn(3) == 0 {
				po.Deps = []string{ids[g.Intn(n)]}
			}
			ops = append(ops, po)
		}
	}
	return ops
}

func main() {
	e := rep.GetEnv()
	r := rep.New(e)
	nGraphs := e.Pick(400, 4000)
	// (two of the ids are related as X and X.Y: the property ids of X.Y begin like those of X)
	ids := []string{"n1", "n1.n2", "n3", "n4", "n1.n2.n5", "n6", "n7"}

	// directed: the listed finding (variable-looking id) as an ordinary case
	for _, kind := range drv.Kinds {
		w := newWorld(kind)
		w.apply(r, op{Op: "addFact", Id: "a"})
		w.apply(r, op{Op: "addFact", Id: "b", Deps: []string{"a"}})
		w.apply(r, op{Op: "addFact", Id: "c", Deps: []string{"zz"}})
		w.apply(r, op{Op: "remFact", Id: "?zz"})
		w.observe(r, true)
	}

	for gi := 0; gi < nGraphs; gi++ {
		g := gen.New(e.BatchSeed()*15485863 + int64(gi))
		idset := ids
		if g.Intn(10) == 0 {
			idset = []string{"n1", "?x", "n3", "?y", "n5", "n6", "n7"}
		}
		build := genGraph(g, idset, false)
		ndel := 1 + g.Intn(4)
		var dels []op
		for i := 0; i < ndel; i++ {
			o := op{Op: "remFact", Id: idset[g.Intn(len(idset))]}
			if g.Intn(3) == 0 {
				o.Op = "remRule"
			}
			if g.Intn(12) == 0 {
				o.Id = "dangling"
			}
			switch g.Intn(10) {
			case 0:
				// a property fact removed by its own id
				o = op{Op: "remFact", Id: ref.PropId(idset[g.Intn(len(idset))], []string{"note", "disabled"}[g.Intn(2)])}
			case 1:
				o = op{Op: "enable", Id: idset[g.Intn(len(idset))]}
			}
			if g.Intn(4) == 0 {
				// an update in place of a deletion: re-adding an existing id must delete nothing
				for _, b := range build {
					if b.Id == o.Id && (b.Op == "addFact" || b.Op == "addRule") {
						o = b
					}
				}
			}
			dels = append(dels, o)
		}
		for _, kind := range drv.Kinds {
			w := newWorld(kind)
			ok := true
			for _, o := range build {
				if !w.apply(r, o) {
					ok = false
					break
				}
			}
			if !ok {
				continue
			}
			w.observe(r, false)
			if gi%3 == 1 {
				if !w.apply(r, op{Op: "reload"}) {
					continue
				}
				w.observe(r, false)
			}
			for _, o := range dels {
				before := len(w.m.Items)
				if !w.apply(r, o) {
					break
				}
				w.observe(r, before-len(w.m.Items) >= 2 || (strings.HasPrefix(o.Op, "add") && before > 2))
			}
		}
	}

	// expiry-triggered cascades: many graphs in parallel, one sleep
	nExp := e.Pick(40, 200)
	var wg sync.WaitGroup
	var mu sync.Mutex
	type pend struct {
		w    *world
		root string
		// lateReload: the item expires while the location is not loaded; it is loaded afterwards
		lateReload bool
	}
	var pending []pend
	for gi := 0; gi < nExp; gi++ {
		g := gen.New(e.BatchSeed()*32452843 + int64(gi))
		build := genGraph(g, ids, true)
		for _, kind := range drv.Kinds {
			w := newWorld(kind)
			rootIdx := 0
			ok := true
			for i, o := range build {
				if i == rootIdx && o.Op == "addFact" {
					o.Ttl = true
				}
				if !w.apply(r, o) {
					ok = false
					break
				}
			}
			if ok && gi%4 == 1 {
				ok = w.apply(r, op{Op: "reload"})
			}
			if ok && build[rootIdx].Op == "addFact" {
				pending = append(pending, pend{w, build[rootIdx].Id, gi%4 == 3})
			}
		}
	}
	// directed: an expiring rule, a rule that goes with it, and a third rule, all three matching one event;
	// the first thing that happens after the expiry is that event
	type trio struct {
		kind string
		loc  *core.Location
	}
	var trios []trio
	for i := 0; i < 6; i++ {
		for _, kind := range drv.Kinds {
			l, err := drv.NewLoc("T", kind, drv.MustMem())
			if err != nil {
				continue
			}
			when := map[string]interface{}{"pattern": map[string]interface{}{"e": "x"}}
			l.AddRule(drv.Ctx(), fmt.Sprintf("k%d-stays", i), core.Map{"when": when, "action": map[string]interface{}{"code": "'stays'"}})
			l.AddRule(drv.Ctx(), fmt.Sprintf("a%d-expires", i), core.Map{"when": when, "action": map[string]interface{}{"code": "'expired'"}, "ttl": 1.0})
			l.AddRule(drv.Ctx(), fmt.Sprintf("z%d-goes-with-it", i), core.Map{"when": when, "action": map[string]interface{}{"code": "'dependent'"}, "deleteWith": []interface{}{fmt.Sprintf("a%d-expires", i)}})
			l.AddRule(drv.Ctx(), fmt.Sprintf("b%d-goes-with-it", i), core.Map{"when": when, "action": map[string]interface{}{"code": "'dependent'"}, "deleteWith": []interface{}{fmt.Sprintf("a%d-expires", i)}})
			trios = append(trios, trio{kind, l})
		}
	}
	time.Sleep(2200 * time.Millisecond)
	for _, t := range trios {
		fr, cond := t.loc.ProcessEvent(drv.Ctx(), core.Map{"e": "x"})
		vals := []string{}
		if fr != nil {
			for _, v := range fr.Values {
				vals = append(vals, fmt.Sprint(v))
			}
		}
		sort.Strings(vals)
		r.Case(true, "expiry-first-seen-by-an-event"+t.kind+fmt.Sprint(len(trios)))
		r.Count("expiry_first_seen_by_an_event", 1)
		// the dependents may still run in this very event (they go when the expiry is noticed); the rule that
		// stays must run, the expired one must not, and the event must not fail
		bad := cond != nil
		stays := false
		for _, v := range vals {
			if v == "stays" {
				stays = true
			}
			if v == "expired" {
				bad = true
			}
		}
		if bad || !stays {
			r.Violate("", "the first event after a rule expired (two other matching rules go with it, a third stays) failed or did not run the rule that stays", rep.J{"state": t.kind, "values": vals, "condition": cond})
		}
	}
	for _, p := range pending {
		wg.Add(1)
		go func(p pend) {
			defer wg.Done()
			before := len(p.w.m.Items)
			mu.Lock()
			defer mu.Unlock()
			if p.lateReload && !p.w.apply(r, op{Op: "reload"}) {
				return
			}
			if p.w.apply(r, op{Op: "expire", Id: p.root}) {
				r.Count("expiry_cascades", 1)
				p.w.observe(r, before-len(p.w.m.Items) >= 2)
			}
		}(p)
	}
	wg.Wait()
	r.Write()
	fmt.Fprintf(os.Stderr, "c08 batch %d: %d evaluations\n", e.Batch, r.Evaluations)
}
