// Monitor for C05: pattern matching is sound and complete for partial
// matching.  Differential oracle: core.Match / core.Matches against ref.Match
// on generated (pattern, data, initial bindings) triples, including Go-typed
// renderings of the same JSON and a non-mutation check.
package main

import (
	"bytes"
	"encoding/json"
	"fmt"
	"math"
	"os"
	"reflect"
	"sort"

	"github.com/Comcast/rulio/core"
	"github.com/Comcast/rulio/service"
	"github.com/Comcast/rulio/sys"

	"verif/lib/cronner"
	"verif/lib/drv"
	"verif/lib/gen"
	"verif/lib/ref"
	"verif/lib/rep"
)

// typed renders JSON value x with Go types that rulio must cast: core.Map,
// []string, []int, int.  The same rendering is applied to pattern and data,
// so equal values stay equal and different values stay different.
func typed(x interface{}, mode int) interface{} {
	if mode >= 3 {
		// mixed rendering: every node chooses for itself (deterministically from its
		// content) whether it is a Go-typed or a plain JSON container
		return typedMixed(x, mode)
	}
	switch v := x.(type) {
	case float64:
		if mode >= 2 && v == math.Trunc(v) {
			return int(v)
		}
		return v
	case map[string]interface{}:
		if mode >= 1 {
			m := core.Map{}
			for k, e := range v {
				m[k] = typed(e, mode)
			}
			return m
		}
		m := map[string]interface{}{}
		for k, e := range v {
			m[k] = typed(e, mode)
		}
		return m
	case []interface{}:
		if mode >= 1 && len(v) > 0 {
			allS := true
			allI := true
			for _, e := range v {
				if _, ok := e.(string); !ok {
					allS = false
				}
				if f, ok := e.(float64); !ok || f != math.Trunc(f) {
					allI = false
				}
			}
			if allS {
				a := make([]string, len(v))
				for i, e := range v {
					a[i] = e.(string)
				}
				return a
			}
			if allI && mode >= 2 {
				a := make([]int, len(v))
				for i, e := range v {
					a[i] = int(e.(float64))
				}
				return a
			}
		}
		a := make([]interface{}, len(v))
		for i, e := range v {
			a[i] = typed(e, mode)
		}
		return a
	}
	return x
}

func typedMixed(x interface{}, salt int) interface{} {
	pick := func(v interface{}) int {
		h := 0
		for _, c := range ref.Canon(v) {
			h = h*31 + int(c)
		}
		if h < 0 {
			h = -h
		}
		return (h + salt) % 3
	}
	switch v := x.(type) {
	case map[string]interface{}:
		if pick(v) == 0 {
			m := core.Map{}
			for k, e := range v {
				m[k] = typedMixed(e, salt)
			}
			return m
		}
		m := map[string]interface{}{}
		for k, e := range v {
			m[k] = typedMixed(e, salt)
		}
		return m
	case []interface{}:
		allS := len(v) > 0
		for _, e := range v {
			if _, ok := e.(string); !ok {
				allS = false
			}
		}
		if allS && pick(v) != 1 {
			a := make([]string, len(v))
			for i, e := range v {
				a[i] = e.(string)
			}
			return a
		}
		a := make([]interface{}, len(v))
		for i, e := range v {
			a[i] = typedMixed(e, salt)
		}
		return a
	}
	return x
}

func plainWithInts(x interface{}, mode int) interface{} {
	switch v := x.(type) {
	case float64:
		if mode == 2 && v == math.Trunc(v) {
			return int(v)
		}
	case map[string]interface{}:
		m := map[string]interface{}{}
		for k, e := range v {
			m[k] = plainWithInts(e, mode)
		}
		return m
	case []interface{}:
		a := make([]interface{}, len(v))
		for i, e := range v {
			a[i] = plainWithInts(e, mode)
		}
		return a
	}
	return x
}

// shapeOf: dynamic type and (for containers) object identity of every bound value.
func shapeOf(bs core.Bindings) string {
	keys := make([]string, 0, len(bs))
	for k := range bs {
		keys = append(keys, k)
	}
	sort.Strings(keys)
	out := ""
	for _, k := range keys {
		v := reflect.ValueOf(bs[k])
		out += fmt.Sprintf("%s:%T", k, bs[k])
		if v.IsValid() && (v.Kind() == reflect.Map || v.Kind() == reflect.Slice) {
			out += fmt.Sprintf("@%x", v.Pointer())
		}
		out += ";"
	}
	return out
}

func toB(bss []core.Bindings) []ref.B {
	out := make([]ref.B, len(bss))
	for i, b := range bss {
		out[i] = ref.B(b)
	}
	return out
}

type tcase struct {
	P    interface{} `json:"pattern"`
	D    interface{} `json:"data"`
	Init ref.B       `json:"initial"`
	Mode int         `json:"typed_mode"`
}

func judge(r *rep.Report, c tcase) {
	r.Journal(c)
	want := ref.CanonSet(ref.Match(c.P, c.D, c.Init))
	p := typed(c.P, c.Mode)
	d := typed(c.D, c.Mode)
	init := core.Bindings{}
	for k, v := range c.Init {
		// core.Match casts pattern and data only; initial bindings come from
		// earlier matches and are plain JSON containers.  Only the scalar
		// rendering (int) follows the data so that equal numbers stay equal.
		init[k] = plainWithInts(v, c.Mode)
	}
	// a binding the pattern never mentions, holding Go-typed containers: it must come back untouched
	if c.Mode > 0 && len(c.Init) > 0 {
		if _, used := ref.VarsOf(ref.Norm(c.P), nil)["?unused"]; !used {
			init["?unused"] = core.Map{"k": []string{"a", "b"}}
		}
	}
	pc, dc, ic := ref.Canon(p), ref.Canon(d), ref.Canon(map[string]interface{}(init))
	is := shapeOf(init)
	var bss []core.Bindings
	var err error
	if len(c.Init) == 0 && c.Mode%2 == 0 {
		bss, err = core.Matches(nil, p, d)
	} else {
		bss, err = core.Match(nil, p, d, init)
	}
	nontrivial := len(want) > 0 && (len(ref.VarsOf(ref.Norm(c.P), nil)) > 0 || ref.Depth(ref.Norm(c.P)) >= 2)
	r.Case(nontrivial, ref.Canon([]interface{}{c.P, c.D, c.Init, c.Mode}))
	if len(want) > 0 {
		r.Count("expected_match", 1)
	}
	if len(want) > 1 {
		r.Count("expected_multiple_bindings", 1)
	}
	if len(c.Init) > 0 {
		r.Count("with_initial_bindings", 1)
	}
	if c.Mode > 0 {
		r.Count("go_typed_inputs", 1)
	}
	if is2 := shapeOf(init); is2 != is {
		r.Violate("", "core.Match replaced values of the caller's initial bindings (same JSON, other objects or Go types)", rep.J{"case": c, "before": is, "after": is2})
		return
	}
	if ref.Canon(p) != pc || ref.Canon(d) != dc || ref.Canon(map[string]interface{}(init)) != ic {
		r.Violate("", "core.Match modified its pattern, data or initial bindings", rep.J{"case": c, "before": []string{pc, dc, ic}, "after": []string{ref.Canon(p), ref.Canon(d), ref.Canon(map[string]interface{}(init))}})
		return
	}
	if err != nil {
		r.Violate("", "core.Match returned an error for an in-fragment input: "+err.Error(), rep.J{"case": c})
		return
	}
	for i, b := range bss {
		if _, ok := b["?unused"]; ok {
			// the harness's own extra binding is carried through; the reference does not know it
			nb := core.Bindings{}
			for k, v := range b {
				if k != "?unused" {
					nb[k] = v
				}
			}
			bss[i] = nb
		}
	}
	got := ref.CanonSet(toB(bss))
	if verdict(r, c, got, want, "core.Match") && nontrivial && r.WantSample() {
		r.Sample(rep.J{"pattern": c.P, "data": c.D, "initial": c.Init, "typed_mode": c.Mode, "bindings": got})
	}
	// the two other places where users reach the matcher: the service's match
	// utility and Env.match inside scripts (plain JSON maps, no initial bindings)
	if _, pm := c.P.(map[string]interface{}); pm && len(c.Init) == 0 && c.Mode == 0 {
		if _, dm := c.D.(map[string]interface{}); dm {
			viaCount++
			if viaCount%7 == 0 {
				judgeVia(r, c, want)
			}
		}
	}
}

var viaCount int

// verdict compares one observed set of bindings with the reference; true = agreed.
func verdict(r *rep.Report, c tcase, got, want []string, via string) bool {
	if ref.SameSet(got, want) {
		return true
	}
	// relaxed model for the known sheens behaviour
	if ref.HasRepeatedVar(c.P, c.Init) {
		loose := ref.CanonSet(ref.MatchLoose(c.P, c.D, c.Init))
		if ref.Subset(want, got) && ref.Subset(got, loose) {
			r.Violate("c05.repeated-var-structured", "a repeated variable was accepted on values that are not equal (sheens partial-match comparison)", rep.J{"case": c, "got": got, "want": want, "via": via})
			return false
		}
	}
	what := via + " disagrees with the reference matcher"
	if !ref.Subset(want, got) {
		what += " (a genuine match is missing)"
	}
	if !ref.Subset(got, want) {
		what += " (a returned binding is not a genuine match)"
	}
	r.Violate("", what, rep.J{"case": c, "got": got, "want": want, "via": via})
	return false
}

var (
	viaSvc *service.Service
	viaLoc *core.Location
)

func bindingsFromJSON(js string) ([]string, error) {
	var arr []map[string]interface{}
	if err := json.Unmarshal([]byte(js), &arr); err != nil {
		return nil, err
	}
	bs := make([]ref.B, len(arr))
	for i, m := range arr {
		bs[i] = ref.B(m)
	}
	return ref.CanonSet(bs), nil
}

func judgeVia(r *rep.Report, c tcase, want []string) {
	if viaSvc == nil {
		s, err := drv.NewSys(drv.SysOpts{TTL: sys.Forever}, cronner.New(true))
		if err != nil {
			panic(err)
		}
		viaSvc = &service.Service{System: s}
		viaLoc, err = drv.NewLoc("m", "indexed", drv.MustMem())
		if err != nil {
			panic(err)
		}
	}
	r.Count("via_service_and_script", 1)
	// service: /api/sys/util/match, the data once as `fact` and once as `event`
	for _, dataKey := range []string{"fact", "event"} {
		var out bytes.Buffer
		_, err := viaSvc.ProcessRequest(drv.Ctx(), map[string]interface{}{"uri": "/api/sys/util/match", "pattern": ref.CloneMap(c.P.(map[string]interface{})), dataKey: ref.CloneMap(c.D.(map[string]interface{}))}, &out)
		if err != nil {
			r.Violate("", "/api/sys/util/match fails for an in-fragment input: "+err.Error(), rep.J{"case": c, "data_parameter": dataKey})
			continue
		}
		got, err := bindingsFromJSON(out.String())
		if err != nil {
			r.Violate("", "/api/sys/util/match does not answer with a JSON array of bindings", rep.J{"case": c, "body": out.String()})
			continue
		}
		verdict(r, c, got, want, "/api/sys/util/match ("+dataKey+")")
	}
	// script: Env.match(pattern, data)
	pj, _ := json.Marshal(c.P)
	dj, _ := json.Marshal(c.D)
	v, err := viaLoc.RunJavascript(drv.Ctx(), "var norm = function(v){ if (v === undefined || v === null) return null; if (typeof v !== 'object') return v; var n = v.length; if (typeof n === 'number') { var a = []; for (var i = 0; i < n; i++) a.push(norm(v[i])); return a; } var o = {}; for (var k in v) o[k] = norm(v[k]); return o; }; JSON.stringify(norm(Env.match("+string(pj)+", "+string(dj)+")))", nil, nil, nil)
	if err != nil {
		r.Violate("", "Env.match fails for an in-fragment input: "+err.Error(), rep.J{"case": c})
		return
	}
	got, err := bindingsFromJSON(fmt.Sprint(v))
	if err != nil {
		r.Violate("", "Env.match does not return an array of bindings", rep.J{"case": c, "value": fmt.Sprint(v)})
		return
	}
	verdict(r, c, got, want, "Env.match")
	// the same with the data arriving as a binding (as `event` and the `when` variables do in an action)
	// and the pattern written in the script
	bs := core.Bindings{"d": ref.Clone(c.D)}
	v, err = viaLoc.RunJavascript(drv.Ctx(), "var norm = function(v){ if (v === undefined || v === null) return null; if (typeof v !== 'object') return v; var n = v.length; if (typeof n === 'number') { var a = []; for (var i = 0; i < n; i++) a.push(norm(v[i])); return a; } var o = {}; for (var k in v) o[k] = norm(v[k]); return o; }; JSON.stringify(norm(Env.match("+string(pj)+", d)))", nil, &bs, nil)
	if err != nil {
		r.Violate("", "Env.match (data from a binding) fails for an in-fragment input: "+err.Error(), rep.J{"case": c})
		return
	}
	got, err = bindingsFromJSON(fmt.Sprint(v))
	if err != nil {
		r.Violate("", "Env.match (data from a binding) does not return an array of bindings", rep.J{"case": c, "value": fmt.Sprint(v)})
		return
	}
	verdict(r, c, got, want, "Env.match (data from a binding)")
}

// judgeBind: Bindings.Bind (the substitution queries use before matching) must
// replace exactly the bound variables, whatever their value (null, false, 0, ""),
// and leave pattern and bindings untouched.
func judgeBind(r *rep.Report, p interface{}, bs ref.B) {
	cb := core.Bindings{}
	for k, v := range bs {
		cb[k] = ref.Clone(v)
	}
	pc, bc := ref.Canon(p), ref.Canon(map[string]interface{}(cb))
	got := cb.Bind(nil, ref.Clone(p))
	want := ref.Subst(ref.Norm(p), bs)
	r.Case(len(bs) > 0, "bind"+ref.Canon([]interface{}{p, bs}))
	r.Count("bind_cases", 1)
	if ref.Canon(got) != ref.Canon(want) {
		r.Violate("", "Bindings.Bind does not substitute exactly the bound variables", rep.J{"pattern": p, "bindings": bs, "got": got, "want": want})
	}
	if ref.Canon(map[string]interface{}(cb)) != bc || ref.Canon(p) != pc {
		r.Violate("", "Bindings.Bind modified its pattern or its bindings", rep.J{"pattern": p, "bindings": bs})
	}
}

// judgeReuse: callers may keep one pattern map and change it between calls (a search that is
// narrowed step by step).  The same map OBJECT is refilled with the next case's pattern and
// matched again; the answer must be the one for its present contents.
func judgeReuse(r *rep.Report, g *gen.Gen, n int) {
	pm := map[string]interface{}{}
	for i := 0; i < n; i++ {
		d := ref.Norm(g.Map(2))
		pn := ref.Norm(g.PatternFrom(d, true))
		pnew, ok := pn.(map[string]interface{})
		if !ok || !gen.InFragment(pn) || !gen.InFragment(d) || gen.HasVarString(d) {
			continue
		}
		for k := range pm {
			delete(pm, k)
		}
		for k, v := range pnew {
			pm[k] = v
		}
		want := ref.CanonSet(ref.Match(pn, d, ref.B{}))
		bss, err := core.Matches(nil, pm, d)
		r.Case(len(want) > 0, "reuse"+ref.Canon([]interface{}{pn, d}))
		r.Count("reused_pattern_map_cases", 1)
		c := tcase{P: pn, D: d}
		if err != nil {
			r.Violate("", "core.Match returned an error for an in-fragment input: "+err.Error(), rep.J{"case": c, "pattern_map_reused": true})
			continue
		}
		verdict(r, c, ref.CanonSet(toB(bss)), want, "core.Matches (pattern map object reused and refilled)")
	}
}

func main() {
	e := rep.GetEnv()
	r := rep.New(e)
	g := gen.New(e.BatchSeed())
	g.Lookalikes = true
	judgeReuse(r, gen.New(e.BatchSeed()+77), e.Pick(1500, 15000))
	n := e.Pick(12000, 150000)
	for i := 0; i < n/10; i++ {
		p := ref.Norm(g.PatternFrom(g.Map(2), true))
		bs := ref.B{}
		for v := range ref.VarsOf(p, nil) {
			if g.Intn(3) > 0 {
				bs[v] = []interface{}{nil, false, 0.0, "", "s1", map[string]interface{}{"k": 1.0}, []interface{}{"a"}}[g.Intn(7)]
			}
		}
		judgeBind(r, p, bs)
	}

	// directed cases first (reproducers of listed findings + documentation rows)
	judge(r, tcase{P: ref.Norm(map[string]interface{}{"a": "?x", "b": "?x"}), D: ref.Norm(map[string]interface{}{"a": map[string]interface{}{"k": 1}, "b": map[string]interface{}{"k": 1, "j": 2}})})
	judge(r, tcase{P: ref.Norm(map[string]interface{}{"a": "?x", "b": "?x"}), D: ref.Norm(map[string]interface{}{"b": map[string]interface{}{"k": 1}, "a": map[string]interface{}{"k": 1, "j": 2}})})
	judge(r, tcase{P: ref.Norm(map[string]interface{}{"a": []interface{}{"?x"}}), D: ref.Norm(map[string]interface{}{"a": []interface{}{1, 2, 3}})})
	judge(r, tcase{P: ref.Norm(map[string]interface{}{"?k": 1}), D: ref.Norm(map[string]interface{}{"a": 1, "b": 2, "c": 1})})
	// several bindings that differ only in the JSON type of the bound value
	judge(r, tcase{P: ref.Norm(map[string]interface{}{"a": []interface{}{map[string]interface{}{"v": "?x"}}}), D: ref.Norm(map[string]interface{}{"a": []interface{}{map[string]interface{}{"v": 1}, map[string]interface{}{"v": "1"}}})})
	judge(r, tcase{P: ref.Norm(map[string]interface{}{"tags": []interface{}{"?t"}}), D: ref.Norm(map[string]interface{}{"tags": []interface{}{true, "true", "null", nil, "s1 s2"}})})

	// deep documents: the same leaf pairs under 6-18 levels of maps and arrays (depth is no part of the
	// fragment's definition: a difference or a variable at the bottom counts like one at the top)
	for depth := 6; depth <= 18; depth++ {
		for form := 0; form < 3; form++ {
			asMap := make([]bool, depth)
			for l := range asMap {
				asMap[l] = form == 0 || (form == 2 && g.Intn(2) == 0)
			}
			wrap := func(leaf interface{}) interface{} {
				x := leaf
				for l := 0; l < depth; l++ {
					switch {
					case asMap[l]:
						x = map[string]interface{}{fmt.Sprintf("k%d", l%3): x}
					default:
						x = []interface{}{x}
					}
				}
				return map[string]interface{}{"top": x}
			}
			for _, pair := range [][2]interface{}{{"?y", "why"}, {"a", "b"}, {"a", "a"}, {map[string]interface{}{"v": "?y", "w": 1.0}, map[string]interface{}{"v": 2.0, "w": 1.0, "z": "more"}}, {1.0, 2.0}} {
				pp := ref.Norm(wrap(pair[0]))
				dd := ref.Norm(wrap(pair[1]))
				r.Count("deep_cases", 1)
				judge(r, tcase{P: pp, D: dd, Mode: pickMode(g)})
			}
		}
	}

	for i := 0; i < n; i++ {
		var p, d interface{}
		switch g.Intn(10) {
		case 0: // independent
			d = g.Map(2)
			p = g.PatternMapFrom(g.Map(2))
		case 1: // data from pattern
			p = g.PatternMapFrom(g.Map(2))
			d = g.DataFrom(p)
		case 2: // non-map tops
			d = g.Value(2)
			p = g.PatternFrom(d, g.Intn(2) == 0)
		default:
			d = g.Map(2 + g.Intn(2))
			p = g.PatternFrom(d, true)
		}
		d = ref.Norm(d)
		p = ref.Norm(p)
		if !gen.InFragment(p) || !gen.InFragment(d) || gen.HasVarString(d) {
			continue
		}
		if s, ok := p.(string); ok && !ref.IsVar(s) {
			_ = s
		}
		init := ref.B{}
		if g.Intn(4) == 0 {
			sols := ref.Match(p, d, ref.B{})
			for v := range ref.VarsOf(p, nil) {
				if v == "?" || g.Intn(2) == 0 {
					continue
				}
				if len(sols) > 0 && g.Intn(3) > 0 {
					if val, ok := sols[g.Intn(len(sols))][v]; ok {
						init[v] = ref.Norm(val)
						continue
					}
				}
				init[v] = g.Scalar()
				if init[v] == nil {
					delete(init, v)
				}
			}
		}
		judge(r, tcase{P: p, D: d, Init: init, Mode: pickMode(g)})
	}
	r.Write()
	fmt.Fprintf(os.Stderr, "c05 batch %d: %d evaluations\n", e.Batch, r.Evaluations)
}

func pickMode(g *gen.Gen) int {
	switch g.Intn(8) {
	case 0:
		return 1
	case 1:
		return 2
	case 2, 3:
		return 3 + g.Intn(3) // mixed Go-typed / plain containers
	}
	return 0
}
