// Monitor for C19: access controls and enablement are enforced on every path.
// Matrix monitor: operation x protection state x caller, executed at the end of
// generated histories on a protected location and on an unprotected twin;
// refused => error and byte-identical state and storage; allowed => same
// result and same resulting state as the twin.
package main

import (
	"fmt"
	"os"
	"sort"
	"strings"

	"github.com/Comcast/rulio/core"
	"github.com/Comcast/rulio/sys"

	"verif/lib/cronner"
	"verif/lib/drv"
	"verif/lib/gen"
	"verif/lib/ref"
	"verif/lib/rep"
)

var protections = []string{"none", "writeKey", "readKey", "both", "readOnly", "disabled", "readOnly+writeKey", "readOnly+both"}
// wrongkey alternates between an unrelated key, a key that begins with the right one, a prefix of the
// right one and the right one in another case (all of them wrong).
var callers = []string{"nokey", "wrongkey", "rightkey"}
var wrongKeyTurn int

type opdef struct {
	name  string
	write bool // changes facts, rules or parents
	read  bool // reveals facts or rules
}

var ops = []opdef{
	{"AddFact", true, false}, {"AddFactOverwrite", true, false}, {"RemFact", true, false}, {"AddRule", true, false}, {"RemRule", true, false},
	{"EnableRule", true, false}, {"SetParents", true, false}, {"Clear", true, false}, {"Delete", true, false},
	{"js:AddFact", true, false}, {"js:RemFact", true, false}, {"js:AddRule", true, false}, {"js:RemRule", true, false},
	{"action:AddFact", true, true}, {"trigger:OneShot", true, true},
	{"GetFact", false, true}, {"GetRule", false, true}, {"SearchFacts", false, true}, {"SearchFactsInherited", false, true}, {"SearchRules", false, true},
	{"ListRules", false, true}, {"StateSize", false, true}, {"Query", false, true}, {"ProcessEvent", false, true}, {"js:Search", false, true}, {"js:Query", false, true},
}

type twin struct {
	loc   *core.Location
	store *core.MemStorage
}

func build(kind string, g *gen.Gen) (*twin, []string) {
	st := drv.MustMem()
	l, err := drv.NewLoc("L", kind, st)
	if err != nil {
		panic(err)
	}
	ctx := drv.Ctx()
	ids := []string{}
	n := 2 + g.Intn(3)
	for i := 0; i < n; i++ {
		id := fmt.Sprintf("f%d", i)
		l.AddFact(ctx, id, core.Map{"a": gen.Strs[g.Intn(4)], "n": float64(i)})
		ids = append(ids, id)
	}
	l.AddRule(ctx, "r1", core.Map{"when": map[string]interface{}{"pattern": map[string]interface{}{"do": "r"}}, "action": map[string]interface{}{"code": "'ran'"}})
	l.AddRule(ctx, "rw", core.Map{"when": map[string]interface{}{"pattern": map[string]interface{}{"do": "w"}}, "action": map[string]interface{}{"code": "Env.AddFact('ja',{from:'action'}); 'wrote'"}})
	// a one-shot scheduled rule: running it (through its trigger event) ends with its removal
	l.AddRule(ctx, "once", core.Map{"schedule": "+1h", "action": map[string]interface{}{"code": "'once ran'"}})
	ids = append(ids, "r1", "rw", "once", "ja", "new", "nr", "jf", "jr", "!r1.disabled", "!.parents")
	return &twin{l, st}, ids
}

// protectHow: 0 = SetProp, 1 = the property fact added without an id, 2 = the property fact
// added under an id the caller chose (facts/add with an id parameter).  All three are the
// documented ways to set a location property.
var protectHow int

func setProp(t *twin, name, val string) {
	ctx := callerCtx("rightkey") // the second key of "both" is added to a location that already has the first
	switch protectHow {
	case 1:
		t.loc.AddFact(ctx, "", core.Map{"!" + name: val})
	case 2:
		t.loc.AddFact(ctx, "my-"+name, core.Map{"!" + name: val})
	default:
		t.loc.SetProp(ctx, "", name, val)
	}
}

func protect(t *twin, p string) {
	ctx := drv.Ctx()
	switch p {
	case "writeKey":
		setProp(t, "writeKey", "WK")
	case "readKey":
		setProp(t, "readKey", "RK")
	case "both":
		setProp(t, "writeKey", "WK")
		setProp(t, "readKey", "RK")
	case "readOnly":
		t.loc.SetReadOnly(ctx, true)
	case "readOnly+writeKey":
		// two protections at once: read-only refuses every write, whatever key is presented
		setProp(t, "writeKey", "WK")
		t.loc.SetReadOnly(ctx, true)
	case "readOnly+both":
		setProp(t, "writeKey", "WK")
		setProp(t, "readKey", "RK")
		t.loc.SetReadOnly(ctx, true)
	case "disabled":
		setProp(t, "enabled", "false")
	}
}

func callerCtx(c string) *core.Context {
	ctx := drv.Ctx()
	switch c {
	case "wrongkey":
		wrongKeyTurn++
		switch wrongKeyTurn % 4 {
		case 0:
			ctx.WriteKey, ctx.ReadKey = "bad", "bad"
		case 1:
			ctx.WriteKey, ctx.ReadKey = "WK2", "RKRK"
		case 2:
			ctx.WriteKey, ctx.ReadKey = "W", "R"
		case 3:
			ctx.WriteKey, ctx.ReadKey = "wk", "rk"
		}
	case "rightkey":
		ctx.WriteKey, ctx.ReadKey = "WK", "RK"
	}
	return ctx
}

// snapshot = raw storage + live items (read with all keys; protection props excluded).
func snapshot(t *twin, ids []string, p string) (string, string) {
	raw := t.store.State(drv.Ctx())["L"]
	keys := []string{}
	for k := range raw {
		if k == "!.writeKey" || k == "!.readKey" || k == "!.enabled" {
			continue
		}
		keys = append(keys, k+"="+raw[k])
	}
	sort.Strings(keys)
	ctx := callerCtx("rightkey")
	if p == "disabled" {
		t.loc.SetProp(drv.Ctx(), "", "enabled", "true")
		defer t.loc.SetProp(drv.Ctx(), "", "enabled", "false")
	}
	live := []string{}
	for _, id := range ids {
		f, err := t.loc.GetFact(ctx, id)
		if err == nil {
			live = append(live, id+"="+ref.Canon(map[string]interface{}(f)))
		}
	}
	return strings.Join(keys, "\n"), strings.Join(live, "\n")
}

// exec runs the operation; returns a normalised result, the error, and for
// action:AddFact whether the action node failed.
func exec(t *twin, o string, ctx *core.Context) (res string, err error) {
	l := t.loc
	switch o {
	case "AddFact":
		_, err = l.AddFact(ctx, "new", core.Map{"a": "fresh"})
	case "AddFactOverwrite":
		_, err = l.AddFact(ctx, "f0", core.Map{"a": "changed"})
	case "RemFact":
		_, err = l.RemFact(ctx, "f0")
	case "AddRule":
		_, err = l.AddRule(ctx, "nr", core.Map{"when": map[string]interface{}{"pattern": map[string]interface{}{"do": "x"}}, "action": map[string]interface{}{"code": "1"}})
	case "RemRule":
		_, err = l.RemRule(ctx, "r1")
	case "EnableRule":
		err = l.EnableRule(ctx, "r1", false)
	case "SetParents":
		_, err = l.SetParents(ctx, []string{"elsewhere"})
	case "Clear":
		err = l.Clear(ctx)
	case "Delete":
		err = l.Delete(ctx)
	case "js:AddFact":
		var v interface{}
		v, err = l.RunJavascript(ctx, "Env.AddFact('jf',{a:'js'})", nil, nil, nil)
		res = fmt.Sprint(v)
	case "js:RemFact":
		_, err = l.RunJavascript(ctx, "Env.RemFact('f0')", nil, nil, nil)
	case "js:AddRule":
		_, err = l.RunJavascript(ctx, "Env.AddRule('jr',{when:{pattern:{do:'j'}},action:{code:'1'}})", nil, nil, nil)
	case "js:RemRule":
		_, err = l.RunJavascript(ctx, "Env.RemRule('r1')", nil, nil, nil)
	case "action:AddFact":
		fr, cond := l.ProcessEvent(ctx, core.Map{"do": "w"})
		if cond != nil {
			err = fmt.Errorf("%s", cond.Msg)
		} else {
			for _, er := range fr.Children {
				for _, erc := range er.Children {
					for _, era := range erc.Children {
						if era.Disposition != core.Complete {
							err = fmt.Errorf("action failed: %s", era.Disposition.Msg)
						}
					}
				}
			}
			res = fmt.Sprint(fr.Values)
		}
	case "trigger:OneShot":
		fr, cond := l.ProcessEvent(ctx, core.Map{"trigger!": "once"})
		if cond != nil {
			err = fmt.Errorf("%s", cond.Msg)
		} else if fr != nil {
			res = fmt.Sprint(fr.Values)
		}
	case "GetFact":
		var f core.Map
		f, err = l.GetFact(ctx, "f1")
		res = ref.Canon(map[string]interface{}(f))
	case "GetRule":
		var f core.Map
		f, err = l.GetRule(ctx, "r1")
		res = ref.Canon(map[string]interface{}(f))
	case "SearchFacts", "SearchFactsInherited":
		var srs *core.SearchResults
		srs, err = l.SearchFacts(ctx, core.Map{"a": "?x"}, o == "SearchFactsInherited")
		res = strings.Join(drv.NormSearch(srs), ";")
	case "SearchRules":
		var rs map[string]*core.Rule
		rs, err = l.SearchRules(ctx, core.Map{"do": "r"}, false)
		ks := []string{}
		for k := range rs {
			ks = append(ks, k)
		}
		sort.Strings(ks)
		res = strings.Join(ks, ",")
	case "ListRules":
		var rs []string
		rs, err = l.ListRules(ctx, false)
		sort.Strings(rs)
		res = strings.Join(rs, ",")
	case "StateSize":
		var n int
		n, err = l.StateSize(ctx)
		res = fmt.Sprint(n > 0)
	case "Query":
		var qr *core.QueryResult
		qr, err = l.Query(ctx, `{"pattern":{"a":"?x"}}`)
		if qr != nil {
			res = fmt.Sprint(len(qr.Bss))
		}
	case "ProcessEvent":
		fr, cond := l.ProcessEvent(ctx, core.Map{"do": "r"})
		if cond != nil {
			err = fmt.Errorf("%s", cond.Msg)
		}
		res = fmt.Sprint(fr.Values)
	case "js:Search":
		var v interface{}
		v, err = l.RunJavascript(ctx, "Env.Search({a:'?x'}).Found.length", nil, nil, nil)
		res = fmt.Sprint(v)
	case "js:Query":
		var v interface{}
		v, err = l.RunJavascript(ctx, "Env.Query({pattern:{a:'?x'}}).Bss.length", nil, nil, nil)
		res = fmt.Sprint(v)
	}
	return
}

// ---- a child location whose PARENT is protected ----

type forest struct {
	child, parent  *core.Location
	cstore, pstore *core.MemStorage
}

var parentProtections = []string{"none", "readKey", "both", "writeKey", "disabled"}

// inherited reads issued at the (unprotected) child
var inheritedOps = []string{"SearchFactsInherited", "ListRulesInherited", "SearchRulesInherited", "Query", "js:Search", "js:Query", "ProcessEvent", "rule:ConditionOverParent"}

func buildForest(kind string, g *gen.Gen) *forest {
	cs, ps := drv.MustMem(), drv.MustMem()
	c, err := drv.NewLoc("C", kind, cs)
	if err != nil {
		panic(err)
	}
	pl, err := drv.NewLoc("P", kind, ps)
	if err != nil {
		panic(err)
	}
	prov := core.NewSimpleLocationProvider(map[string]*core.Location{"C": c, "P": pl})
	c.Provider, pl.Provider = prov, prov
	ctx := drv.Ctx()
	secret := gen.Strs[g.Intn(4)]
	pl.AddFact(ctx, "ps", core.Map{"a": "parent-" + secret, "secret": secret})
	pl.AddRule(ctx, "pr", core.Map{"when": map[string]interface{}{"pattern": map[string]interface{}{"do": "r"}}, "action": map[string]interface{}{"code": "'parent rule ran'"}})
	c.AddFact(ctx, "cf", core.Map{"a": "child-" + secret})
	c.AddRule(ctx, "cr", core.Map{"when": map[string]interface{}{"pattern": map[string]interface{}{"do": "r"}}, "action": map[string]interface{}{"code": "'child rule ran'"}})
	c.AddRule(ctx, "cq", core.Map{"when": map[string]interface{}{"pattern": map[string]interface{}{"do": "q"}},
		"condition": map[string]interface{}{"pattern": map[string]interface{}{"secret": "?s"}}, "action": map[string]interface{}{"code": "'saw ' + s"}})
	if _, err := c.SetParents(ctx, []string{"P"}); err != nil {
		panic(err)
	}
	return &forest{c, pl, cs, ps}
}

func (f *forest) protect(p string) {
	ctx := drv.Ctx()
	switch p {
	case "readKey":
		f.parent.SetProp(ctx, "", "readKey", "RK")
	case "writeKey":
		f.parent.SetProp(ctx, "", "writeKey", "WK")
	case "both":
		f.parent.SetProp(ctx, "", "writeKey", "WK")
		f.parent.SetProp(ctx, "", "readKey", "RK")
	case "disabled":
		f.parent.SetProp(ctx, "", "enabled", "false")
	}
}

func (f *forest) raw() string {
	var out []string
	for name, st := range map[string]*core.MemStorage{"C": f.cstore, "P": f.pstore} {
		for k, v := range st.State(drv.Ctx())[name] {
			if k == "!.writeKey" || k == "!.readKey" || k == "!.enabled" {
				continue
			}
			out = append(out, name+"/"+k+"="+v)
		}
	}
	sort.Strings(out)
	return strings.Join(out, "\n")
}

// execInherited returns a normalised result that contains whatever of the parent was revealed.
func (f *forest) execInherited(o string, ctx *core.Context) (res string, err error) {
	l := f.child
	switch o {
	case "SearchFactsInherited":
		var srs *core.SearchResults
		srs, err = l.SearchFacts(ctx, core.Map{"a": "?x"}, true)
		res = strings.Join(drv.NormSearch(srs), ";")
	case "ListRulesInherited":
		var rs []string
		rs, err = l.ListRules(ctx, true)
		sort.Strings(rs)
		res = strings.Join(rs, ",")
	case "SearchRulesInherited":
		var rs map[string]*core.Rule
		rs, err = l.SearchRules(ctx, core.Map{"do": "r"}, true)
		ks := []string{}
		for k := range rs {
			ks = append(ks, k)
		}
		sort.Strings(ks)
		res = strings.Join(ks, ",")
	case "Query":
		var qr *core.QueryResult
		qr, err = l.Query(ctx, `{"pattern":{"a":"?x"}}`)
		if qr != nil {
			var xs []string
			for _, bs := range qr.Bss {
				xs = append(xs, fmt.Sprint(bs["?x"]))
			}
			sort.Strings(xs)
			res = strings.Join(xs, ",")
		}
	case "js:Search":
		var v interface{}
		v, err = l.RunJavascript(ctx, "var xs = Env.Search({a:'?x'}, true).Found.map(function(f){return f.Id}); xs.sort(); xs.join(',')", nil, nil, nil)
		res = fmt.Sprint(v)
	case "js:Query":
		var v interface{}
		v, err = l.RunJavascript(ctx, "var xs = Env.Query({pattern:{a:'?x'}}).Bss.map(function(b){return b['?x']}); xs.sort(); xs.join(',')", nil, nil, nil)
		res = fmt.Sprint(v)
	case "ProcessEvent":
		fr, cond := l.ProcessEvent(ctx, core.Map{"do": "r"})
		if cond != nil {
			err = fmt.Errorf("%s", cond.Msg)
		}
		if fr != nil {
			vs := []string{}
			for _, v := range fr.Values {
				vs = append(vs, fmt.Sprint(v))
			}
			sort.Strings(vs)
			res = strings.Join(vs, ",")
		}
	case "rule:ConditionOverParent":
		// the child's own rule whose condition can only be satisfied by the parent's fact
		fr, cond := l.ProcessEvent(ctx, core.Map{"do": "q"})
		if cond != nil {
			err = fmt.Errorf("%s", cond.Msg)
		}
		if fr != nil {
			vs := []string{}
			for _, v := range fr.Values {
				vs = append(vs, fmt.Sprint(v))
			}
			sort.Strings(vs)
			res = strings.Join(vs, ",")
		}
	}
	return
}

// revealsParent: the normalised result shows a fact or rule of the parent.
func revealsParent(res string) bool {
	return strings.Contains(res, "parent-") || strings.Contains(res, "ps") || strings.Contains(res, "pr") || strings.Contains(res, "parent rule ran") || strings.Contains(res, "saw ")
}

func refusedExpected(o opdef, p, c string) bool {
	if p == "disabled" {
		return true
	}
	right := c == "rightkey"
	if o.write {
		if strings.HasPrefix(p, "readOnly") {
			return true
		}
		if (p == "writeKey" || p == "both") && !right {
			return true
		}
	}
	if o.read {
		if (p == "readKey" || p == "both" || p == "readOnly+both") && !right {
			return true
		}
	}
	return false
}

func main() {
	e := rep.GetEnv()
	r := rep.New(e)
	rounds := e.Pick(4, 20)
	for round := 0; round < rounds; round++ {
		for _, kind := range drv.Kinds {
			for _, p := range protections {
				for _, c := range callers {
					for oi, o := range ops {
						if o.name == "StateSize" && p == "disabled" {
							continue // admin read-out, not gated by design (DESIGN §5 C10/C19)
						}
						seed := e.BatchSeed()*2038074743 + int64(round*1000+oi)
						protectHow = round % 3
						prot, ids := build(kind, gen.New(seed))
						plain, _ := build(kind, gen.New(seed))
						protect(prot, p)
						r.Journal(rep.J{"state": kind, "protection": p, "caller": c, "op": o.name})
						rawB, liveB := snapshot(prot, ids, p)
						res, err := exec(prot, o.name, callerCtx(c))
						rawA, liveA := snapshot(prot, ids, p)
						wantRefused := refusedExpected(o, p, c)
						r.Case(p != "none", fmt.Sprintf("%s|%s|%s|%s|%d", kind, p, c, o.name, seed))
						wit := rep.J{"state": kind, "protection": p, "caller": c, "op": o.name, "error": drv.ErrStr(err), "result": res,
							"storage_before": rawB, "storage_after": rawA}
						if wantRefused {
							r.Count("refusals_expected", 1)
							if err == nil {
								r.Violate("", fmt.Sprintf("%s was allowed for caller %s although the location is protected (%s)", o.name, c, p), wit)
								continue
							}
							if rawB != rawA || liveB != liveA {
								r.Violate("", fmt.Sprintf("%s was refused (%v) but changed state or storage", o.name, err), wit)
							}
							continue
						}
						r.Count("allowed_expected", 1)
						res2, err2 := exec(plain, o.name, drv.Ctx())
						if (err == nil) != (err2 == nil) || res != res2 {
							wit["twin_result"], wit["twin_error"] = res2, drv.ErrStr(err2)
							r.Violate("", fmt.Sprintf("%s with the right keys behaves differently from an unprotected location", o.name), wit)
							continue
						}
						_, liveP := snapshot(plain, ids, "none")
						rawP, _ := snapshot(plain, ids, "none")
						if liveA != liveP || rawA != rawP {
							wit["twin_storage_after"] = rawP
							r.Violate("", fmt.Sprintf("%s with the right keys leaves a different state than on an unprotected location", o.name), wit)
							continue
						}
						if p != "none" && r.WantSample() {
							r.Sample(rep.J{"state": kind, "protection": p, "caller": c, "op": o.name, "outcome": "allowed, same as unprotected twin", "result": res})
						}
					}
				}
			}
		}
	}
	parentMatrix(r, e, rounds)
	sysMatrix(r, e)
	r.Write()
	fmt.Fprintf(os.Stderr, "c19 batch %d: %d evaluations\n", e.Batch, r.Evaluations)
}

// parentMatrix: inherited reads at an unprotected child of a protected parent.
// Without the parent's read key (or with the parent disabled) nothing of the
// parent may be revealed and nothing may change; with the key (and for a mere
// write key) the answer equals that of an unprotected forest.
func parentMatrix(r *rep.Report, e rep.Env, rounds int) {
	for round := 0; round < rounds; round++ {
		for _, kind := range drv.Kinds {
			for _, p := range parentProtections {
				for _, c := range callers {
					for oi, o := range inheritedOps {
						seed := e.BatchSeed()*1000000007 + int64(round*1000+oi)
						prot := buildForest(kind, gen.New(seed))
						plain := buildForest(kind, gen.New(seed))
						prot.protect(p)
						r.Journal(rep.J{"state": kind, "parent_protection": p, "caller": c, "op": o})
						before := prot.raw()
						res, err := prot.execInherited(o, callerCtx(c))
						after := prot.raw()
						res2, err2 := plain.execInherited(o, drv.Ctx())
						r.Case(p != "none", fmt.Sprintf("parent|%s|%s|%s|%s|%d", kind, p, c, o, seed))
						r.Count("parent_protected_cases", 1)
						wit := rep.J{"state": kind, "parent_protection": p, "caller": c, "op": o, "issued_at": "the unprotected child C of P", "error": drv.ErrStr(err), "result": res,
							"unprotected_result": res2, "unprotected_error": drv.ErrStr(err2), "storage_before": before, "storage_after": after}
						if !revealsParent(res2) || err2 != nil {
							r.Violate("", "harness: the unprotected forest does not show the parent's data for "+o, wit)
							continue
						}
						mustHide := p == "disabled" || ((p == "readKey" || p == "both") && c != "rightkey")
						if mustHide {
							r.Count("refusals_expected", 1)
							if revealsParent(res) {
								r.Violate("", fmt.Sprintf("%s at a child reveals facts or rules of its protected parent (%s) to caller %s", o, p, c), wit)
								continue
							}
							if err == nil {
								r.Violate("", fmt.Sprintf("%s at a child of a protected parent (%s) reports success to caller %s although the parent's part was refused", o, p, c), wit)
								continue
							}
							if before != after {
								r.Violate("", fmt.Sprintf("%s was refused (%v) but changed state or storage", o, err), wit)
							}
							continue
						}
						r.Count("allowed_expected", 1)
						if (err == nil) != (err2 == nil) || res != res2 {
							r.Violate("", fmt.Sprintf("%s with the right keys behaves differently from an unprotected parent", o), wit)
						}
					}
				}
			}
		}
	}
}

// ---- the same protections through sys.System ----

type sysCase struct {
	s  *sys.System
	st core.Storage
}

func buildSys(kind string) *sysCase {
	s, err := drv.NewSys(drv.SysOpts{Linear: kind == "linear", TTL: sys.Forever}, cronner.New(true))
	if err != nil {
		panic(err)
	}
	ctx := drv.Ctx()
	s.AddFact(ctx, "P", "pf", `{"a":"parent"}`)
	s.AddFact(ctx, "S", "f0", `{"a":"s1","n":0}`)
	s.AddFact(ctx, "S", "f1", `{"a":"s2","n":1}`)
	s.AddRule(ctx, "S", "r1", `{"when":{"pattern":{"do":"r"}},"action":{"code":"'ran'"}}`)
	s.AddRule(ctx, "S", "rw", `{"when":{"pattern":{"do":"w"}},"action":{"code":"Env.AddFact('ja',{from:'action'}); 'wrote'"}}`)
	s.SetParents(ctx, "S", []string{"P"})
	st, _ := s.PeekStorage(ctx)
	return &sysCase{s, st}
}

func (c *sysCase) protect(p string) {
	ctx := callerCtx("rightkey")
	add := func(name, val string) { c.s.AddFact(ctx, "S", "", fmt.Sprintf(`{"!%s":%q}`, name, val)) }
	switch p {
	case "writeKey":
		add("writeKey", "WK")
	case "readKey":
		add("readKey", "RK")
	case "both":
		add("writeKey", "WK")
		add("readKey", "RK")
	case "readOnly":
		if l, err := c.s.GetLocation(ctx, "S"); err == nil {
			l.SetReadOnly(ctx, true)
		}
	case "disabled":
		add("enabled", "false")
	}
}

func (c *sysCase) raw() string {
	ms, ok := c.st.(*core.MemStorage)
	if !ok || ms == nil {
		return "?"
	}
	ms.Lock()
	defer ms.Unlock()
	var out []string
	for k, v := range ms.State(nil)["S"] {
		if k == "!.writeKey" || k == "!.readKey" || k == "!.enabled" {
			continue
		}
		if k == "!.createdAt" {
			v = "<set>" // the value is the time of creation
		}
		out = append(out, k+"="+v)
	}
	sort.Strings(out)
	return strings.Join(out, "\n")
}

var sysOps = []opdef{
	{"AddFact", true, false}, {"RemFact", true, false}, {"AddRule", true, false}, {"RemRule", true, false}, {"EnableRule", true, false},
	{"SetParents", true, false}, {"SetParentsEmpty", true, false}, {"SetParentsNil", true, false}, {"ClearLocation", true, false}, {"DeleteLocation", true, false},
	{"action:AddFact", true, true}, {"CreateLocation", true, false},
	{"GetFact", false, true}, {"GetRule", false, true}, {"SearchFacts", false, true}, {"SearchFactsInherited", false, true}, {"ListRules", false, true}, {"Query", false, true}, {"ProcessEvent", false, true},
}

func (c *sysCase) exec(o string, ctx *core.Context) (res string, err error) {
	s := c.s
	switch o {
	case "AddFact":
		_, err = s.AddFact(ctx, "S", "new", `{"a":"fresh"}`)
	case "RemFact":
		_, err = s.RemFact(ctx, "S", "f0")
	case "AddRule":
		_, err = s.AddRule(ctx, "S", "nr", `{"when":{"pattern":{"do":"x"}},"action":{"code":"1"}}`)
	case "RemRule":
		_, err = s.RemRule(ctx, "S", "r1")
	case "EnableRule":
		err = s.EnableRule(ctx, "S", "r1", false)
	case "SetParents":
		_, err = s.SetParents(ctx, "S", []string{"elsewhere"})
	case "SetParentsEmpty":
		_, err = s.SetParents(ctx, "S", []string{})
	case "SetParentsNil":
		_, err = s.SetParents(ctx, "S", nil)
	case "CreateLocation":
		// writes the creation marker (a property fact) into a location that was used without being created
		var created bool
		created, err = s.CreateLocation(ctx, "S")
		res = fmt.Sprint(created)
	case "ClearLocation":
		err = s.ClearLocation(ctx, "S")
	case "DeleteLocation":
		err = s.DeleteLocation(ctx, "S")
	case "action:AddFact":
		var fr *core.FindRules
		fr, err = s.ProcessEvent(ctx, "S", `{"do":"w"}`)
		if err == nil && fr != nil {
			for _, er := range fr.Children {
				for _, erc := range er.Children {
					for _, era := range erc.Children {
						if era.Disposition != core.Complete {
							err = fmt.Errorf("action failed: %s", era.Disposition.Msg)
						}
					}
				}
			}
			res = fmt.Sprint(fr.Values)
		}
	case "GetFact":
		res, err = s.GetFact(ctx, "S", "f1")
	case "GetRule":
		res, err = s.GetRule(ctx, "S", "r1")
	case "SearchFacts", "SearchFactsInherited":
		var srs *core.SearchResults
		srs, err = s.SearchFacts(ctx, "S", `{"a":"?x"}`, o == "SearchFactsInherited")
		res = strings.Join(drv.NormSearch(srs), ";")
	case "ListRules":
		var rs []string
		rs, err = s.ListRules(ctx, "S", false)
		sort.Strings(rs)
		res = strings.Join(rs, ",")
	case "Query":
		var qr *core.QueryResult
		qr, err = s.Query(ctx, "S", `{"pattern":{"a":"?x"}}`)
		if qr != nil {
			res = fmt.Sprint(len(qr.Bss))
		}
	case "ProcessEvent":
		var fr *core.FindRules
		fr, err = s.ProcessEvent(ctx, "S", `{"do":"r"}`)
		if fr != nil {
			res = fmt.Sprint(fr.Values)
		}
	}
	return
}

// sysMatrix: the System passes the caller's context to the location, and implements some
// operations itself (parents, clear, delete): same matrix, same expectations.
func sysMatrix(r *rep.Report, e rep.Env) {
	for _, kind := range drv.Kinds {
		for _, p := range []string{"none", "writeKey", "readKey", "both", "readOnly", "disabled"} {
			for _, c := range callers {
				for _, o := range sysOps {
					prot, plain := buildSys(kind), buildSys(kind)
					prot.protect(p)
					r.Journal(rep.J{"via": "sys", "state": kind, "protection": p, "caller": c, "op": o.name})
					before := prot.raw()
					res, err := prot.exec(o.name, callerCtx(c))
					after := prot.raw()
					r.Case(p != "none", fmt.Sprintf("sys|%s|%s|%s|%s", kind, p, c, o.name))
					r.Count("system_level_cases", 1)
					wit := rep.J{"via": "sys.System", "state": kind, "protection": p, "caller": c, "op": o.name, "error": drv.ErrStr(err), "result": res, "storage_before": before, "storage_after": after}
					if refusedExpected(o, p, c) {
						r.Count("refusals_expected", 1)
						if err == nil {
							r.Violate("", fmt.Sprintf("%s through the System was allowed for caller %s although the location is protected (%s)", o.name, c, p), wit)
							continue
						}
						if before != after {
							r.Violate("", fmt.Sprintf("%s through the System was refused (%v) but changed the stored state", o.name, err), wit)
						}
						// the refusal is not a one-off: the same caller's next write is refused as well
						if o.write && p != "readKey" && p != "none" {
							_, err2 := prot.s.AddFact(callerCtx(c), "S", "after-refusal", `{"a":"second try"}`)
							r.Count("writes_after_a_refusal", 1)
							if err2 == nil || prot.raw() != before {
								wit["second_write_error"] = drv.ErrStr(err2)
								r.Violate("", fmt.Sprintf("after %s was refused, the same caller's next write was accepted (the refused request switched the protection off)", o.name), wit)
							}
						}
						continue
					}
					r.Count("allowed_expected", 1)
					res2, err2 := plain.exec(o.name, drv.Ctx())
					if (err == nil) != (err2 == nil) || res != res2 {
						wit["twin_result"], wit["twin_error"] = res2, drv.ErrStr(err2)
						r.Violate("", fmt.Sprintf("%s through the System with the right keys behaves differently from an unprotected location", o.name), wit)
						continue
					}
					if after != plain.raw() {
						wit["twin_storage_after"] = plain.raw()
						r.Violate("", fmt.Sprintf("%s through the System with the right keys leaves a different stored state than on an unprotected location", o.name), wit)
					}
				}
			}
		}
	}
}
