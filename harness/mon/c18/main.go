// Monitor for C18: the service layer is a faithful, encoding-independent
// rendering of the API.  Metamorphic differential: the same logical request
// history is rendered as query parameters (with /api, without it, with a
// version prefix), form body, JSON body, /api/json envelope, /api/yaml and
// inside /api/sys/util/batch, each rendering against its own fresh engine,
// plus service.ProcessRequest directly and a sys.System twin; negative cases
// must produce an error response (HTTP 400 / an `error` element in a batch).
package main

import (
	"bytes"
	"encoding/json"
	"fmt"
	"io"
	"io/ioutil"
	"net/http"
	"net/http/httptest"
	"net/url"
	"os"
	"regexp"
	"sort"
	"strings"

	"github.com/Comcast/rulio/core"
	"github.com/Comcast/rulio/service"
	"github.com/Comcast/rulio/sys"
	yaml "gopkg.in/yaml.v2"

	"verif/lib/cronner"
	"verif/lib/drv"
	"verif/lib/gen"
	"verif/lib/ref"
	"verif/lib/rep"
)

type Req struct {
	URI    string                 `json:"uri"`
	Params map[string]interface{} `json:"params"`
	Neg    string                 `json:"negative,omitempty"` // why an error is expected
	RawURI interface{}            `json:"raw_uri,omitempty"`  // replaces the uri in renderings that carry one as data
	Prep   string                 `json:"prepare,omitempty"`  // engine state the negative case needs
	Echo   string                 `json:"echo,omitempty"`     // text the error message quotes from the request (must arrive unmangled)
}

type Resp struct {
	Status int    `json:"status"`
	Body   string `json:"body"`
	Err    string `json:"transport_error,omitempty"`
}

var uuidRe = regexp.MustCompile(`[0-9a-f]{8}-[0-9a-f]{4}-[0-9a-f]{4}-[0-9a-f]{4}-[0-9a-f]{12}`)

func normBody(b string) string {
	b = strings.TrimSpace(uuidRe.ReplaceAllString(b, "<generated-id>"))
	var x interface{}
	if err := json.Unmarshal([]byte(b), &x); err != nil {
		return "RAW:" + b
	}
	var scrub func(interface{}) interface{}
	scrub = func(v interface{}) interface{} {
		switch t := v.(type) {
		case map[string]interface{}:
			for _, k := range []string{"Elapsed", "Checked", "Expired"} {
				delete(t, k)
			}
			if _, ok := t["result"]; ok {
				if _, isMap := t["result"].(map[string]interface{}); isMap {
					delete(t, "id") // generated request id of events/ingest
				}
			}
			for k, e := range t {
				t[k] = scrub(e)
			}
			if js, ok := t["Js"].(string); ok {
				var y interface{}
				if json.Unmarshal([]byte(js), &y) == nil {
					t["Js"] = y
				}
			}
			return t
		case []interface{}:
			for i, e := range t {
				t[i] = scrub(e)
			}
			sort.SliceStable(t, func(i, j int) bool { return ref.Canon(t[i]) < ref.Canon(t[j]) })
			return t
		}
		return v
	}
	return ref.Canon(scrub(x))
}

type engine struct {
	sys *sys.System
	svc *service.Service
	srv *httptest.Server
}

func newEngine() *engine {
	s, err := drv.NewSys(drv.SysOpts{TTL: sys.Forever}, cronner.New(true))
	if err != nil {
		panic(err)
	}
	svc := &service.Service{System: s}
	h, _ := service.NewHTTPService(drv.Ctx(), svc)
	return &engine{s, svc, httptest.NewServer(h)}
}

func httpDo(method, u, body, ctype string) Resp {
	req, err := http.NewRequest(method, u, strings.NewReader(body))
	if err != nil {
		return Resp{Err: "bad request: " + err.Error()}
	}
	if ctype != "" {
		req.Header.Set("Content-Type", ctype)
	}
	resp, err := http.DefaultClient.Do(req)
	if err != nil {
		return Resp{Err: "transport: " + err.Error()}
	}
	b, _ := ioutil.ReadAll(resp.Body)
	resp.Body.Close()
	return Resp{Status: resp.StatusCode, Body: string(b)}
}

// unknownLength hides the length of a body from net/http (which then sends it chunked).
type unknownLength struct{ r io.Reader }

func (u unknownLength) Read(p []byte) (int, error) { return u.r.Read(p) }

func httpDoReader(method, u string, body io.Reader, ctype string) Resp {
	req, err := http.NewRequest(method, u, body)
	if err != nil {
		return Resp{Err: "bad request: " + err.Error()}
	}
	if ctype != "" {
		req.Header.Set("Content-Type", ctype)
	}
	resp, err := http.DefaultClient.Do(req)
	if err != nil {
		return Resp{Err: "transport: " + err.Error()}
	}
	b, _ := ioutil.ReadAll(resp.Body)
	resp.Body.Close()
	return Resp{Status: resp.StatusCode, Body: string(b)}
}

func asString(v interface{}) string {
	switch t := v.(type) {
	case string:
		return t
	case bool:
		if t {
			return "true"
		}
		return "false"
	default:
		b, _ := json.Marshal(v)
		return string(b)
	}
}

type encoding struct {
	name string
	do   func(e *engine, r Req) Resp
}

func withURI(r Req) map[string]interface{} { return withURIP(r, "/api") }

// withURIP spells the uri with another (equivalent) prefix.
func withURIP(r Req, prefix string) map[string]interface{} {
	m := map[string]interface{}{"uri": prefix + r.URI}
	if r.RawURI != nil {
		m["uri"] = r.RawURI
	}
	for k, v := range r.Params {
		m[k] = v
	}
	return m
}

func queryEnc(name, prefix string) encoding {
	return encoding{name, func(e *engine, r Req) Resp {
		q := url.Values{}
		for k, v := range r.Params {
			q.Set(k, asString(v))
		}
		return httpDo("GET", e.srv.URL+prefix+r.URI+"?"+q.Encode(), "", "")
	}}
}

var encodings = []encoding{
	directEnc("direct", "/api"),
	queryEnc("query", "/api"),
	queryEnc("query-noapi", ""),
	{"query-json-leading-blank", func(e *engine, r Req) Resp {
		// JSON-typed parameters written with white space before the opening brace
		q := url.Values{}
		for k, v := range r.Params {
			sv := asString(v)
			if _, isMap := v.(map[string]interface{}); isMap {
				sv = " " + sv
			}
			q.Set(k, sv)
		}
		return httpDo("GET", e.srv.URL+"/api"+r.URI+"?"+q.Encode(), "", "")
	}},
	queryEnc("query-version", "/v1.0"),
	{"form", func(e *engine, r Req) Resp {
		q := url.Values{}
		for k, v := range r.Params {
			q.Set(k, asString(v))
		}
		return httpDo("POST", e.srv.URL+"/api"+r.URI, q.Encode(), "application/x-www-form-urlencoded")
	}},
	{"json-body", func(e *engine, r Req) Resp {
		b, _ := json.Marshal(r.Params)
		return httpDo("POST", e.srv.URL+"/api"+r.URI, string(b), "application/json")
	}},
	{"json-body-leading-blank", func(e *engine, r Req) Resp {
		// JSON texts may begin with white space (RFC 8259)
		b, _ := json.Marshal(r.Params)
		return httpDo("POST", e.srv.URL+"/api"+r.URI, " "+string(b), "application/json")
	}},
	{"json-body-pretty", func(e *engine, r Req) Resp {
		// the same body as a pretty-printer writes it: a newline first, tab-indented
		b, _ := json.MarshalIndent(r.Params, "", "\t")
		return httpDo("POST", e.srv.URL+"/api"+r.URI, "\n"+string(b)+"\n", "application/json")
	}},
	envelopeEnc("json-envelope", "/api"),
	yamlEnc("yaml", "/api"),
	batchEnc("batch", "/api"),
	// the same operations under the other spellings of the uri and the sniffed YAML body
	directEnc("direct-noapi", ""),
	directEnc("direct-version", "/v1.0/api"),
	envelopeEnc("json-envelope-noapi", ""),
	envelopeEnc("json-envelope-version", "/v1.0"),
	yamlEnc("yaml-noapi", ""),
	batchEnc("batch-noapi", ""),
	batchEnc("batch-version", "/v1.0/api"),
	batchEnc("batch-version-noapi", "/0.0.9"),
	{"yaml-body", func(e *engine, r Req) Resp {
		b, _ := yaml.Marshal(r.Params)
		return httpDo("POST", e.srv.URL+"/api"+r.URI, string(b), "text/yaml")
	}},
	{"json-body-version", func(e *engine, r Req) Resp {
		b, _ := json.Marshal(r.Params)
		return httpDo("POST", e.srv.URL+"/v1.0/api"+r.URI, string(b), "application/json")
	}},
	{"json-body-chunked", func(e *engine, r Req) Resp {
		// the same JSON body from a reader of unknown length: no Content-Length, chunked transfer
		b, _ := json.Marshal(r.Params)
		return httpDoReader("POST", e.srv.URL+"/api"+r.URI, unknownLength{strings.NewReader(string(b))}, "application/json")
	}},
	{"form-chunked", func(e *engine, r Req) Resp {
		q := url.Values{}
		for k, v := range r.Params {
			q.Set(k, asString(v))
		}
		return httpDoReader("POST", e.srv.URL+"/api"+r.URI, unknownLength{strings.NewReader(q.Encode())}, "application/x-www-form-urlencoded")
	}},
	{"json-envelope-chunked", func(e *engine, r Req) Resp {
		b, _ := json.Marshal(withURI(r))
		return httpDoReader("POST", e.srv.URL+"/api/json", unknownLength{strings.NewReader(string(b))}, "application/json")
	}},
	{"form-noapi", func(e *engine, r Req) Resp {
		q := url.Values{}
		for k, v := range r.Params {
			q.Set(k, asString(v))
		}
		return httpDo("POST", e.srv.URL+r.URI, q.Encode(), "application/x-www-form-urlencoded")
	}},
}

// carriesURI: renderings in which the uri is a datum of the request (and can be ill-typed).
func carriesURI(name string) bool {
	return strings.HasPrefix(name, "direct") || strings.HasPrefix(name, "json-envelope") || name == "yaml" || name == "yaml-noapi" || strings.HasPrefix(name, "batch")
}

func directEnc(name, prefix string) encoding {
	return encoding{name, func(e *engine, r Req) (resp Resp) {
		defer func() {
			if x := recover(); x != nil {
				resp = Resp{Err: fmt.Sprint("ProcessRequest panicked: ", x)}
			}
		}()
		var out bytes.Buffer
		_, err := e.svc.ProcessRequest(drv.Ctx(), ref.CloneMap(withURIP(r, prefix)), &out)
		if err != nil {
			return Resp{Status: 400, Body: err.Error()}
		}
		return Resp{Status: 200, Body: out.String()}
	}}
}

func envelopeEnc(name, prefix string) encoding {
	return encoding{name, func(e *engine, r Req) Resp {
		b, _ := json.Marshal(withURIP(r, prefix))
		return httpDo("POST", e.srv.URL+"/api/json", string(b), "application/json")
	}}
}

func yamlEnc(name, prefix string) encoding {
	return encoding{name, func(e *engine, r Req) Resp {
		b, _ := yaml.Marshal(withURIP(r, prefix))
		return httpDo("POST", e.srv.URL+"/api/yaml", string(b), "text/yaml")
	}}
}

func batchEnc(name, prefix string) encoding {
	return encoding{name, func(e *engine, r Req) Resp {
		b, _ := json.Marshal(map[string]interface{}{"requests": []interface{}{withURIP(r, prefix)}})
		resp := httpDo("POST", e.srv.URL+"/api/sys/util/batch", string(b), "application/json")
		var arr []interface{}
		if json.Unmarshal([]byte(strings.TrimSpace(resp.Body)), &arr) == nil && len(arr) == 1 {
			if em, ok := arr[0].(map[string]interface{}); ok {
				if e, isErr := em["error"]; isErr && len(em) == 1 {
					return Resp{Status: 400, Body: fmt.Sprint(e)}
				}
			}
			eb, _ := json.Marshal(arr[0])
			resp.Body = string(eb)
		} else if resp.Status == 200 {
			// an empty element (nothing written) renders as "[]"
			if strings.TrimSpace(resp.Body) == "[]" {
				resp.Body = ""
			}
		}
		return resp
	}}
}

// ---- generators ----
func val(g *gen.Gen) string { return g.Str() }

func genFact(g *gen.Gen) map[string]interface{} {
	f := map[string]interface{}{"a": val(g)}
	if g.Intn(2) == 0 {
		f["b"] = map[string]interface{}{"c": val(g), "n": float64(g.Intn(5))}
	}
	if g.Intn(3) == 0 {
		f["tags"] = []interface{}{val(g) + "1", val(g) + "2"}
	}
	if g.Intn(4) == 0 {
		// lists directly inside lists, with maps below them (a polygon's rings)
		f["rings"] = []interface{}{
			[]interface{}{map[string]interface{}{"lat": float64(g.Intn(90)), "lon": val(g)}},
			[]interface{}{val(g), []interface{}{map[string]interface{}{"deep": val(g)}}},
		}
	}
	return f
}

func genHistory(g *gen.Gen, n int) []Req {
	locs := []string{"plain", "loc two&three"}
	ids := []string{"i1", "id two", "i/3", `q"uote`, `back\slash`, " door", "door", "door "}
	var h []Req
	lastFact := map[string]interface{}{"a": "x"}
	for i := 0; i < n; i++ {
		loc := locs[g.Intn(2)]
		id := ids[g.Intn(len(ids))]
		p := map[string]interface{}{"location": loc}
		r := Req{Params: p}
		switch g.Intn(17) {
		case 15:
			r.URI = []string{"/loc/admin/create", "/loc/admin/size", "/loc/rules/list"}[g.Intn(3)]
		case 16:
			// one-parameter operations that change the location
			r.URI = []string{"/loc/admin/clear", "/loc/admin/delete"}[g.Intn(2)]
		case 0, 1, 2:
			r.URI = "/loc/facts/add"
			lastFact = genFact(g)
			p["fact"] = lastFact
			if g.Intn(4) > 0 {
				p["id"] = id
			}
		case 3:
			r.URI = "/loc/facts/get"
			p["id"] = id
		case 4, 5:
			r.URI = "/loc/facts/search"
			p["pattern"] = map[string]interface{}{"a": []string{"?x", fmt.Sprint(lastFact["a"])}[g.Intn(2)]}
			if g.Intn(2) == 0 {
				p["inherited"] = g.Intn(2) == 0
			}
			if g.Intn(4) == 0 {
				// the take switch of a search: false leaves everything in place, true removes what was found
				p["take"] = g.Intn(2) == 0
				delete(p, "inherited") // taking what a parent holds is not an operation of the child
			}
		case 6:
			r.URI = "/loc/facts/rem"
			p["id"] = id
		case 7:
			r.URI = "/loc/rules/add"
			p["rule"] = map[string]interface{}{"when": map[string]interface{}{"pattern": map[string]interface{}{"e": val(g)}}, "action": map[string]interface{}{"code": "'did ' + location"}}
			p["id"] = "r" + id
			switch g.Intn(6) {
			case 0:
				// a rule whose condition fails: events that reach it are failing operations
				p["rule"].(map[string]interface{})["condition"] = map[string]interface{}{"code": "throw 'bad condition'"}
			case 1:
				// serial actions, the first one fails
				rm := p["rule"].(map[string]interface{})
				delete(rm, "action")
				rm["actions"] = []interface{}{map[string]interface{}{"code": "throw 'bad action'"}, map[string]interface{}{"code": "'second'"}}
				rm["policies"] = map[string]interface{}{"serialActions": true}
			case 2:
				// a result JSON has no rendering for
				p["rule"].(map[string]interface{})["action"] = map[string]interface{}{"code": []string{"0/0", "1/0", "({n: -1/0})"}[g.Intn(3)]}
			}
		case 8:
			r.URI = "/loc/rules/list"
		case 9:
			r.URI = "/loc/events/ingest"
			p["event"] = map[string]interface{}{"e": val(g)}
			if g.Intn(3) == 0 {
				// the same event handed in as a work document that nothing has been done for yet
				r.URI = "/loc/events/retry"
				wj, _ := json.Marshal(map[string]interface{}{"event": p["event"]})
				delete(p, "event")
				p["work"] = string(wj)
			}
		case 10:
			r.URI = "/loc/facts/query"
			p["query"] = map[string]interface{}{"and": []interface{}{map[string]interface{}{"pattern": map[string]interface{}{"a": "?x"}}}}
		case 11:
			r.URI = []string{"/loc/rules/disable", "/loc/rules/enable", "/loc/rules/enabled", "/loc/rules/rem"}[g.Intn(4)]
			p["id"] = "r" + id
		case 12:
			r.URI = "/loc/admin/size"
		case 13:
			r.URI = "/loc/parents"
			if g.Intn(2) == 0 {
				p["set"] = `["plain"]`
				p["location"] = "loc two&three"
			}
		default:
			r.URI = "/loc/facts/take"
			p["pattern"] = map[string]interface{}{"a": fmt.Sprint(lastFact["a"])}
			if g.Intn(2) == 0 {
				// replace: everything that matches goes, the new fact comes (under the given id, if any)
				r.URI = "/loc/facts/replace"
				p["fact"] = genFact(g)
				if g.Intn(2) == 0 {
					p["id"] = id
				}
			}
		}
		h = append(h, r)
	}
	return h
}

// negatives derives error cases from a positive request.
func negatives(g *gen.Gen) []Req {
	base := []Req{
		{URI: "/loc/facts/add", Params: map[string]interface{}{"location": "plain", "fact": map[string]interface{}{"a": "x"}, "id": "n1"}},
		{URI: "/loc/facts/get", Params: map[string]interface{}{"location": "plain", "id": "n1"}},
		{URI: "/loc/facts/rem", Params: map[string]interface{}{"location": "plain", "id": "n1"}},
		{URI: "/loc/facts/search", Params: map[string]interface{}{"location": "plain", "pattern": map[string]interface{}{"a": "?x"}}},
		{URI: "/loc/facts/take", Params: map[string]interface{}{"location": "plain", "pattern": map[string]interface{}{"a": "zzz"}}},
		{URI: "/loc/facts/replace", Params: map[string]interface{}{"location": "plain", "pattern": map[string]interface{}{"a": "zzz"}, "fact": map[string]interface{}{"a": "y"}}},
		{URI: "/loc/facts/query", Params: map[string]interface{}{"location": "plain", "query": map[string]interface{}{"pattern": map[string]interface{}{"a": "?x"}}}},
		{URI: "/loc/rules/add", Params: map[string]interface{}{"location": "plain", "rule": map[string]interface{}{"when": map[string]interface{}{"pattern": map[string]interface{}{"e": "x"}}, "action": map[string]interface{}{"code": "1"}}, "id": "nr"}},
		{URI: "/loc/rules/rem", Params: map[string]interface{}{"location": "plain", "id": "nr"}},
		{URI: "/loc/rules/enabled", Params: map[string]interface{}{"location": "plain", "id": "nr"}},
		{URI: "/loc/events/ingest", Params: map[string]interface{}{"location": "plain", "event": map[string]interface{}{"e": "x"}}},
		{URI: "/loc/rules/list", Params: map[string]interface{}{"location": "plain"}},
		{URI: "/loc/admin/size", Params: map[string]interface{}{"location": "plain"}},
		{URI: "/loc/parents", Params: map[string]interface{}{"location": "plain"}},
	}
	required := map[string][]string{
		"/loc/facts/add": {"location", "fact"}, "/loc/facts/get": {"location", "id"}, "/loc/facts/rem": {"location", "id"}, "/loc/facts/search": {"location", "pattern"},
		"/loc/facts/take": {"location", "pattern"}, "/loc/facts/replace": {"location", "pattern", "fact"}, "/loc/facts/query": {"location", "query"},
		"/loc/rules/add": {"location", "rule"}, "/loc/rules/rem": {"location", "id"}, "/loc/rules/enabled": {"location", "id"}, "/loc/events/ingest": {"location", "event"},
		"/loc/rules/list": {"location"}, "/loc/admin/size": {"location"}, "/loc/parents": {"location"},
	}
	var out []Req
	for _, b := range base {
		for _, miss := range required[b.URI] {
			p := ref.CloneMap(b.Params)
			delete(p, miss)
			out = append(out, Req{URI: b.URI, Params: p, Neg: "required parameter " + miss + " missing"})
		}
	}
	// ill-typed parameters (only renderings that carry JSON types can express these)
	out = append(out,
		Req{URI: "/loc/facts/add", Params: map[string]interface{}{"location": "plain", "fact": "not a map"}, Neg: "typed:fact is a string"},
		Req{URI: "/loc/facts/add", Params: map[string]interface{}{"location": "plain", "fact": map[string]interface{}{"a": "x"}, "id": 5.0}, Neg: "typed:id is a number"},
		Req{URI: "/loc/rules/add", Params: map[string]interface{}{"location": "plain", "rule": map[string]interface{}{"when": map[string]interface{}{"pattern": map[string]interface{}{"e": "x"}}, "action": map[string]interface{}{"code": "1"}}, "id": 5.0}, Neg: "typed:id is a number"},
		Req{URI: "/loc/facts/search", Params: map[string]interface{}{"location": 7.0, "pattern": map[string]interface{}{"a": "?x"}}, Neg: "typed:location is a number"},
		Req{URI: "/loc/facts/search", Params: map[string]interface{}{"location": "plain", "pattern": map[string]interface{}{"a": "?x"}, "inherited": 3.0}, Neg: "typed:inherited is a number"},
		Req{URI: "/loc/facts/add", Params: map[string]interface{}{"location": "plain", "fact": ""}, Neg: "the fact parameter is empty"},
		Req{URI: "/loc/facts/search", Params: map[string]interface{}{"location": "plain", "pattern": ""}, Neg: "the pattern parameter is empty"},
		Req{URI: "/loc/events/ingest", Params: map[string]interface{}{"location": "plain", "event": ""}, Neg: "the event parameter is empty"},
		Req{URI: "/loc/facts/take", Prep: "readonly-with-fact", Params: map[string]interface{}{"location": "plain", "pattern": map[string]interface{}{"a": "zzz"}}, Neg: "operation fails: the location is read-only, the matching fact cannot be removed"},
		Req{URI: "/loc/facts/search", Prep: "readonly-with-fact", Params: map[string]interface{}{"location": "plain", "pattern": map[string]interface{}{"a": "zzz"}, "take": true}, Neg: "operation fails: the location is read-only, the matching fact cannot be removed"},
		Req{URI: "/loc/util/js", Params: map[string]interface{}{"location": "plain"}, Neg: "required parameter code missing"},
		Req{URI: "/loc/util/js", Params: map[string]interface{}{"location": "plain", "code": 5.0}, Neg: "typed:code is a number"},
		Req{URI: "/loc/util/js", Params: map[string]interface{}{"location": "plain", "code": "throw 'no'"}, Neg: "operation fails: the script throws"},
		Req{URI: "/loc/nowhere", Params: map[string]interface{}{"location": "plain"}, Neg: "unknown URI"},
		Req{URI: "/loc/rules/list", RawURI: 5.0, Params: map[string]interface{}{"location": "plain"}, Neg: "typed-uri:the uri is a number"},
		Req{URI: "/loc/rules/list", RawURI: map[string]interface{}{"a": "/api/loc/rules/list"}, Params: map[string]interface{}{"location": "plain"}, Neg: "typed-uri:the uri is a map"},
		Req{URI: "/loc/rules/list", RawURI: []interface{}{"/api/loc/rules/list"}, Params: map[string]interface{}{"location": "plain"}, Neg: "typed-uri:the uri is an array"},
		Req{URI: "/loc/facts/get", Params: map[string]interface{}{"location": "plain", "id": "never-added"}, Neg: "operation fails: no such fact"},
		Req{URI: "/loc/facts/get", Params: map[string]interface{}{"location": "plain", "id": "100%sure %d"}, Neg: "operation fails: no such fact", Echo: "100%sure %d"},
		Req{URI: "/loc/rules/add", Params: map[string]interface{}{"location": "plain", "rule": map[string]interface{}{"action": map[string]interface{}{"code": "1"}}}, Neg: "operation fails: rule without when/schedule"},
		Req{URI: "/loc/facts/query", Params: map[string]interface{}{"location": "plain", "query": map[string]interface{}{"bogus": 1.0}}, Neg: "operation fails: unparsable query"},
		// a required structured parameter that is present but null (JSON null, YAML ~): not given
		Req{URI: "/loc/facts/add", Params: map[string]interface{}{"location": "plain", "fact": nil, "id": "nullfact"}, Neg: "typed:the fact parameter is null"},
		Req{URI: "/loc/events/ingest", Params: map[string]interface{}{"location": "plain", "event": nil}, Neg: "typed:the event parameter is null"},
		Req{URI: "/loc/facts/search", Params: map[string]interface{}{"location": "plain", "pattern": nil}, Neg: "typed:the pattern parameter is null"},
		Req{URI: "/loc/facts/query", Params: map[string]interface{}{"location": "plain", "query": nil}, Neg: "typed:the query parameter is null"},
		Req{URI: "/loc/rules/add", Params: map[string]interface{}{"location": "plain", "rule": nil, "id": "nullrule"}, Neg: "typed:the rule parameter is null"},
		Req{URI: "/loc/facts/replace", Params: map[string]interface{}{"location": "plain", "pattern": map[string]interface{}{"a": "zzz"}, "fact": nil}, Neg: "typed:the fact parameter is null"},
		// a switch that is neither true nor false
		Req{URI: "/loc/facts/search", Params: map[string]interface{}{"location": "plain", "pattern": map[string]interface{}{"a": "?x"}, "inherited": "yes"}, Neg: "the inherited parameter is not a boolean (yes)"},
		Req{URI: "/loc/facts/search", Params: map[string]interface{}{"location": "plain", "pattern": map[string]interface{}{"a": "?x"}, "take": "1"}, Neg: "the take parameter is not a boolean (1)"},
		Req{URI: "/loc/rules/list", Params: map[string]interface{}{"location": "plain", "inherited": "t"}, Neg: "the inherited parameter is not a boolean (t)"},
		Req{URI: "/loc/events/retry", Prep: "throwing-rule", Params: map[string]interface{}{"location": "plain", "work": `{"event":{"e":"boom"}}`}, Neg: "operation fails: the work reaches a rule whose condition throws"},
		Req{URI: "/loc/events/ingest", Prep: "throwing-rule", Params: map[string]interface{}{"location": "plain", "event": map[string]interface{}{"e": "boom"}}, Neg: "operation fails: the event reaches a rule whose condition throws"},
		Req{URI: "/loc/events/retry", Params: map[string]interface{}{"location": "plain"}, Neg: "required parameter work missing"},
	)
	return out
}

func classifyNeg(r Req) string { return "" }

// toSys translates a logical request into a direct System call (for the
// operations whose result has an obvious System counterpart).
func toSys(q Req) (drv.Req, bool) {
	js := func(x interface{}) string { b, _ := json.Marshal(x); return string(b) }
	loc, _ := q.Params["location"].(string)
	id, _ := q.Params["id"].(string)
	switch q.URI {
	case "/loc/facts/add":
		return drv.Req{Op: "addFact", Loc: loc, Id: id, Doc: js(q.Params["fact"])}, true
	case "/loc/facts/get":
		return drv.Req{Op: "getFact", Loc: loc, Id: id}, true
	case "/loc/facts/rem":
		return drv.Req{Op: "remFact", Loc: loc, Id: id}, true
	case "/loc/facts/search":
		inh, _ := q.Params["inherited"].(bool)
		return drv.Req{Op: "search", Loc: loc, Doc: js(q.Params["pattern"]), NoInherit: !inh}, true
	case "/loc/rules/add":
		return drv.Req{Op: "addRule", Loc: loc, Id: id, Doc: js(q.Params["rule"])}, true
	case "/loc/rules/rem":
		return drv.Req{Op: "remRule", Loc: loc, Id: id}, true
	case "/loc/rules/list":
		return drv.Req{Op: "listRules", Loc: loc, NoInherit: true}, true
	case "/loc/rules/disable":
		return drv.Req{Op: "enable", Loc: loc, Id: id, On: false}, true
	case "/loc/rules/enable":
		return drv.Req{Op: "enable", Loc: loc, Id: id, On: true}, true
	case "/loc/events/ingest":
		return drv.Req{Op: "event", Loc: loc, Doc: js(q.Params["event"])}, true
	case "/loc/parents":
		if set, ok := q.Params["set"].(string); ok {
			return drv.Req{Op: "setParents", Loc: loc, Doc: set}, true
		}
	case "/loc/admin/clear":
		return drv.Req{Op: "clear", Loc: loc}, true
	}
	return drv.Req{}, false
}

// unrenderableKey: the listed finding c18.unrenderable-result (the event was processed, the System
// call returns the work, the service cannot render a NaN / Inf result and answers with an error).
func unrenderableKey(q Req, resp Resp, sysOut string) string {
	if q.URI == "/loc/events/ingest" && resp.Status != 200 && strings.Contains(resp.Body, "unsupported value") &&
		(strings.Contains(sysOut, "NaN") || strings.Contains(sysOut, "Inf")) {
		return "c18.unrenderable-result"
	}
	return ""
}

// sameAsSys compares a service response with the normalised result of the
// direct System call.
func sameAsSys(q Req, resp Resp, sysOut string) (bool, string) {
	if strings.HasPrefix(sysOut, "ERR:") || sysOut == "notfound" {
		return resp.Status != 200, "the System call fails"
	}
	if resp.Status != 200 {
		return false, "the System call succeeds"
	}
	var body map[string]interface{}
	if json.Unmarshal([]byte(strings.TrimSpace(resp.Body)), &body) != nil {
		return false, "the response is not a JSON object"
	}
	switch q.URI {
	case "/loc/facts/add", "/loc/rules/add":
		want := strings.TrimPrefix(sysOut, "id=")
		got, _ := body["id"].(string)
		if uuidRe.MatchString(want) {
			return uuidRe.MatchString(got), "a generated id"
		}
		return got == want, "id " + want
	case "/loc/facts/get":
		return ref.Canon(body["fact"]) == sysOut, "fact " + sysOut
	case "/loc/facts/search":
		var found []string
		if fs, ok := body["Found"].([]interface{}); ok {
			for _, f := range fs {
				fm, _ := f.(map[string]interface{})
				bss, _ := fm["Bindingss"].([]interface{})
				var bs []ref.B
				for _, b := range bss {
					if bm, ok := b.(map[string]interface{}); ok {
						bs = append(bs, ref.B(bm))
					}
				}
				for _, c := range ref.CanonSet(bs) {
					found = append(found, fmt.Sprint(fm["Id"])+"|"+c)
				}
			}
		}
		for i := range found {
			found[i] = uuidRe.ReplaceAllString(found[i], "<generated-id>")
		}
		sort.Strings(found)
		want := strings.Split(uuidRe.ReplaceAllString(sysOut, "<generated-id>"), ";")
		sort.Strings(want)
		return strings.Join(found, ";") == strings.Join(want, ";"), "hits " + sysOut
	case "/loc/rules/list":
		var ids []string
		if xs, ok := body["ids"].([]interface{}); ok {
			for _, x := range xs {
				ids = append(ids, fmt.Sprint(x))
			}
		}
		sort.Strings(ids)
		return strings.Join(ids, ",") == sysOut, "ids " + sysOut
	case "/loc/events/ingest":
		var vals []string
		if res, ok := body["result"].(map[string]interface{}); ok {
			if xs, ok := res["values"].([]interface{}); ok {
				for _, x := range xs {
					vals = append(vals, fmt.Sprint(x))
				}
			}
		}
		sort.Strings(vals)
		return strings.Join(vals, ",") == sysOut, "values " + sysOut
	}
	return true, ""
}

func main() {
	e := rep.GetEnv()
	r := rep.New(e)
	nHist := e.Pick(25, 150)
	for hi := 0; hi < nHist; hi++ {
		g := gen.New(e.BatchSeed()*982451653 + int64(hi))
		g.Escapes = true
		hist := genHistory(g, 20+g.Intn(15))
		r.Journal(rep.J{"history": hi})
		results := map[string][]Resp{}
		for _, enc := range encodings {
			eng := newEngine()
			for _, q := range hist {
				results[enc.name] = append(results[enc.name], enc.do(eng, q))
			}
			eng.srv.Close()
		}
		// the whole history as the elements of one batch, the uri spelled differently per element
		{
			spell := []string{"/api", "", "/v1.0/api", "/v1.0", "/0.0.9/api"}
			var elems []interface{}
			for i, q := range hist {
				elems = append(elems, withURIP(q, spell[i%len(spell)]))
			}
			eng := newEngine()
			b, _ := json.Marshal(map[string]interface{}{"requests": elems})
			resp := httpDo("POST", eng.srv.URL+"/api/sys/util/batch", string(b), "application/json")
			eng.srv.Close()
			var arr []interface{}
			if resp.Status != 200 || json.Unmarshal([]byte(strings.TrimSpace(resp.Body)), &arr) != nil || len(arr) != len(hist) {
				r.Violate("", "a batch of well-formed requests is not answered by one JSON element per request", rep.J{"history": hist, "response": resp})
			} else {
				var rs []Resp
				for _, el := range arr {
					if em, ok := el.(map[string]interface{}); ok {
						if ev, isErr := em["error"]; isErr && len(em) == 1 {
							rs = append(rs, Resp{Status: 400, Body: fmt.Sprint(ev)})
							continue
						}
					}
					eb, _ := json.Marshal(el)
					if string(eb) == "null" {
						eb = nil
					}
					rs = append(rs, Resp{Status: 200, Body: string(eb)})
				}
				results["batch-whole-history"] = rs
			}
		}
		// the sys.System twin, driven directly
		twin, _ := drv.NewSys(drv.SysOpts{TTL: sys.Forever}, cronner.New(true))
		for i, q := range hist {
			if sq, ok := toSys(q); ok {
				out := drv.SysDo(twin, sq)
				if take, _ := q.Params["take"].(bool); take && q.URI == "/loc/facts/search" {
					loc, _ := q.Params["location"].(string)
					pj, _ := json.Marshal(q.Params["pattern"])
					inh, _ := q.Params["inherited"].(bool)
					if srs, err := twin.SearchFacts(drv.Ctx(), loc, string(pj), inh); err == nil {
						for _, f := range srs.Found {
							twin.RemFact(drv.Ctx(), loc, f.Id)
						}
					}
				}
				r.Count("compared_with_direct_system_call", 1)
				if same, want := sameAsSys(q, results["direct"][i], out); !same {
					r.Violate(unrenderableKey(q, results["direct"][i], out), fmt.Sprintf("%s through the service does not return what the direct System call returns (%s)", q.URI, want), rep.J{"request": q, "service_response": results["direct"][i], "system_result": out, "history": hist[:i+1]})
				}
			} else {
				// keep the twin in step for operations without a comparison
				if q.URI == "/loc/admin/delete" {
					loc, _ := q.Params["location"].(string)
					twin.DeleteLocation(drv.Ctx(), loc)
				}
				if q.URI == "/loc/admin/create" {
					// the service reports "already exists" as an error; the System call returns created=false
					loc, _ := q.Params["location"].(string)
					created, err := twin.CreateLocation(drv.Ctx(), loc)
					r.Count("compared_with_direct_system_call", 1)
					if (err == nil && created) != (results["direct"][i].Status == 200) {
						r.Violate("", "/loc/admin/create through the service does not report what the direct System call reports", rep.J{"request": q, "service_response": results["direct"][i], "system_created": created, "system_err": fmt.Sprint(err), "history": hist[:i+1]})
					}
				}
				if q.URI == "/loc/events/retry" {
					loc, _ := q.Params["location"].(string)
					var fr core.FindRules
					json.Unmarshal([]byte(q.Params["work"].(string)), &fr)
					err := twin.RetryEventWork(drv.Ctx(), loc, &fr)
					var vals []string
					for _, v := range fr.Values {
						vals = append(vals, fmt.Sprint(v))
					}
					sort.Strings(vals)
					out := strings.Join(vals, ",")
					if err != nil {
						out = "ERR:" + err.Error()
					}
					r.Count("compared_with_direct_system_call", 1)
					qi := q
					qi.URI = "/loc/events/ingest" // same response shape
					if same, want := sameAsSys(qi, results["direct"][i], out); !same {
						r.Violate(unrenderableKey(qi, results["direct"][i], out), fmt.Sprintf("/loc/events/retry through the service does not return what the direct System call returns (%s)", want), rep.J{"request": q, "service_response": results["direct"][i], "system_result": out, "history": hist[:i+1]})
					}
				}
				if q.URI == "/loc/admin/size" {
					loc, _ := q.Params["location"].(string)
					n, err := twin.GetSize(drv.Ctx(), loc)
					var body map[string]interface{}
					json.Unmarshal([]byte(strings.TrimSpace(results["direct"][i].Body)), &body)
					r.Count("compared_with_direct_system_call", 1)
					if (err == nil) != (results["direct"][i].Status == 200) || (err == nil && fmt.Sprint(body["size"]) != fmt.Sprint(n)) {
						r.Violate("", "/loc/admin/size through the service does not return what the direct System call returns", rep.J{"request": q, "service_response": results["direct"][i], "system_size": n, "system_err": fmt.Sprint(err), "history": hist[:i+1]})
					}
				}
				if q.URI == "/loc/facts/replace" {
					loc, _ := q.Params["location"].(string)
					pj, _ := json.Marshal(q.Params["pattern"])
					if srs, err := twin.SearchFacts(drv.Ctx(), loc, string(pj), false); err == nil {
						for _, f := range srs.Found {
							twin.RemFact(drv.Ctx(), loc, f.Id)
						}
					}
					fj, _ := json.Marshal(q.Params["fact"])
					rid, _ := q.Params["id"].(string)
					twin.AddFact(drv.Ctx(), loc, rid, string(fj))
				}
				if q.URI == "/loc/facts/take" {
					loc, _ := q.Params["location"].(string)
					pj, _ := json.Marshal(q.Params["pattern"])
					if srs, err := twin.SearchFacts(drv.Ctx(), loc, string(pj), false); err == nil {
						for _, f := range srs.Found {
							twin.RemFact(drv.Ctx(), loc, f.Id)
						}
					}
				}
			}
		}
		for i, q := range hist {
			base := results["direct"][i]
			escaping := strings.ContainsAny(ref.Canon(q.Params), " &%+/?#'\"\\<>{}") || strings.Contains(ref.Canon(q.Params), "\\u")
			for _, enc := range append(encodings[1:], encoding{name: "batch-whole-history"}) {
				if len(results[enc.name]) <= i {
					continue
				}
				got := results[enc.name][i]
				r.Case(escaping, fmt.Sprint(e.BatchSeed(), hi, i, enc.name))
				wit := rep.J{"request": q, "encoding": enc.name, "response": got, "direct": base, "history": hist[:i+1]}
				if got.Err != "" {
					r.Violate("", "no HTTP answer for a well-formed request: "+got.Err, wit)
					continue
				}
				if (got.Status == 200) != (base.Status == 200) {
					r.Violate("", fmt.Sprintf("%s: status %d through %s but %d directly", q.URI, got.Status, enc.name, base.Status), wit)
					continue
				}
				if got.Status == 200 && normBody(got.Body) != normBody(base.Body) {
					r.Violate("", fmt.Sprintf("%s returns a different result through %s than through a direct service call", q.URI, enc.name), wit)
				}
			}
			if hi == 0 && escaping && r.WantSample() {
				r.Sample(rep.J{"request": q, "direct": base.Body, "same_through": len(encodings) - 1})
			}
		}
	}
	// negative cases: every rendering that can express the case must answer with an error
	g := gen.New(e.BatchSeed())
	for ni, q := range negatives(g) {
		for _, enc := range encodings {
			if strings.HasPrefix(q.Neg, "typed:") && (strings.HasPrefix(enc.name, "query") || strings.HasPrefix(enc.name, "form")) {
				continue // query strings carry no JSON types
			}
			if strings.HasPrefix(q.Neg, "typed-uri:") && !carriesURI(enc.name) {
				continue
			}
			eng := newEngine()
			if q.Prep == "readonly-with-fact" {
				eng.sys.AddFact(drv.Ctx(), "plain", "t1", `{"a":"zzz"}`)
				if l, err := eng.sys.GetLocation(drv.Ctx(), "plain"); err == nil {
					l.SetReadOnly(drv.Ctx(), true)
				}
			}
			if q.Prep == "throwing-rule" {
				eng.sys.AddRule(drv.Ctx(), "plain", "thr", `{"when":{"pattern":{"e":"boom"}},"condition":{"code":"throw 'bad condition'"},"action":{"code":"1"}}`)
			}
			got := enc.do(eng, q)
			eng.srv.Close()
			r.Case(true, fmt.Sprint("neg", ni, enc.name))
			r.Count("negative_cases", 1)
			r.Journal(rep.J{"negative": q, "encoding": enc.name})
			wit := rep.J{"request": q, "encoding": enc.name, "response": got, "expected": "an error response because: " + q.Neg}
			if got.Err != "" {
				r.Violate("", "no HTTP answer (connection dropped) for: "+q.Neg, wit)
				continue
			}
			if got.Status == 200 {
				r.Violate(classifyNeg(q), fmt.Sprintf("%s answers 200 although %s", q.URI, q.Neg), wit)
			} else if q.Echo != "" && !strings.Contains(got.Body, q.Echo) && !strings.Contains(got.Body, strings.Replace(q.Echo, `"`, `\"`, -1)) {
				r.Violate("", fmt.Sprintf("the error response of %s does not render the request's own text (%q) as it was given", q.URI, q.Echo), wit)
			}
		}
	}
	r.Write()
	fmt.Fprintf(os.Stderr, "c18 batch %d: %d evaluations\n", e.Batch, r.Evaluations)
	os.Exit(0)
}
