// Monitor for C01: event dispatch evaluates exactly the rules whose `when`
// matches.  Differential oracle over generated histories: after every step a
// batch of events is dispatched through the real location (indexed and linear
// state, with and without a parent location) and compared with the reference
// model (ref.Loc + ref.Match).
package main

import (
	"math"
	"encoding/json"
	"fmt"
	"os"
	"sort"
	"strings"
	"time"

	"github.com/Comcast/rulio/core"

	"verif/lib/drv"
	"verif/lib/gen"
	"verif/lib/ref"
	"verif/lib/rep"
)

type op struct {
	Op     string                 `json:"op"`
	Loc    string                 `json:"loc"`
	Id     string                 `json:"id,omitempty"`
	When   map[string]interface{} `json:"when,omitempty"`
	Fact   map[string]interface{} `json:"fact,omitempty"`
	On     bool                   `json:"on,omitempty"`
	Sched  bool                   `json:"scheduled,omitempty"`
	Expire bool                   `json:"expires,omitempty"`
	Err    string                 `json:"err,omitempty"`
	// Implicit: the pattern is the `when` value itself (no {"pattern": ...} wrapper)
	Implicit bool `json:"implicit_when,omitempty"`
	// EmptySched: the rule also says "schedule":"" (or null), which is no schedule
	EmptySched int `json:"empty_schedule,omitempty"`
	// Dep: the rule says deleteWith:[Dep] (it goes when that fact is removed)
	Dep string `json:"delete_with,omitempty"`
}

type world struct {
	kind    string
	child   *core.Location
	parent  *core.Location
	mc, mp  *ref.Loc
	unknown map[string]bool // loc/id whose last mutating op failed
	former  []map[string]interface{}
}

func newWorld(kind string, withParent bool) (*world, error) {
	w := &world{kind: kind, mc: ref.NewLoc("child"), mp: ref.NewLoc("parent"), unknown: map[string]bool{}}
	var err error
	if w.child, err = drv.NewLoc("child", kind, drv.MustMem()); err != nil {
		return nil, err
	}
	if withParent {
		if w.parent, err = drv.NewLoc("parent", kind, drv.MustMem()); err != nil {
			return nil, err
		}
		prov := core.NewSimpleLocationProvider(map[string]*core.Location{"child": w.child, "parent": w.parent})
		w.child.Provider = prov
		w.parent.Provider = prov
		if _, err = w.child.SetParents(drv.Ctx(), []string{"parent"}); err != nil {
			return nil, err
		}
		w.mc.Put(ref.PropId("", "parents"), map[string]interface{}{"id": "", "!parents": []interface{}{"parent"}, "deleteWith": []interface{}{""}})
	}
	return w, nil
}

func (w *world) loc(name string) (*core.Location, *ref.Loc) {
	if name == "parent" {
		return w.parent, w.mp
	}
	return w.child, w.mc
}

func ruleMap(o op) map[string]interface{} {
	r := map[string]interface{}{"action": map[string]interface{}{"code": "1"}}
	if o.Sched {
		r["schedule"] = "+10000h"
	} else {
		r["when"] = map[string]interface{}{"pattern": ref.CloneMap(o.When)}
		if o.Implicit {
			r["when"] = ref.CloneMap(o.When)
		}
		switch o.EmptySched {
		case 1:
			r["schedule"] = ""
		case 2:
			r["schedule"] = nil
		}
	}
	if o.Expire {
		r["expires"] = float64(time.Now().Unix() + 1000000)
	}
	if o.Dep != "" {
		r["deleteWith"] = []interface{}{o.Dep}
	}
	return r
}

// apply runs one operation on the real location and, when acknowledged, on the model.
func (w *world) apply(o *op) {
	loc, m := w.loc(o.Loc)
	ctx := drv.Ctx()
	var err error
	switch o.Op {
	case "addRule":
		rm := ruleMap(*o)
		_, err = loc.AddRule(ctx, o.Id, core.Map(ref.CloneMap(rm)))
		if err == nil {
			wrap := map[string]interface{}{"rule": rm}
			if e, ok := rm["expires"]; ok {
				wrap["expires"] = e
			}
			if d, ok := rm["deleteWith"]; ok {
				wrap["deleteWith"] = d
			}
			m.Put(o.Id, wrap)
		}
	case "remRule":
		_, err = loc.RemRule(ctx, o.Id)
		if err == nil {
			m.Rem(o.Id)
			m.Rem(ref.PropId(o.Id, "disabled"))
		}
	case "addFact":
		_, err = loc.AddFact(ctx, o.Id, core.Map(ref.CloneMap(o.Fact)))
		if err == nil {
			m.Put(o.Id, o.Fact)
		}
	case "remFact":
		_, err = loc.RemFact(ctx, o.Id)
		if err == nil {
			m.Rem(o.Id)
		}
	case "enable":
		err = loc.EnableRule(ctx, o.Id, o.On)
		if err == nil {
			pid := ref.PropId(o.Id, "disabled")
			if o.On {
				m.Rem(pid)
			} else {
				m.Put(pid, map[string]interface{}{"id": o.Id, "!disabled": true, "deleteWith": []interface{}{o.Id}})
			}
		}
	case "clear":
		err = loc.Clear(ctx)
		if err == nil {
			m.Clear()
			if o.Loc == "child" && w.parent != nil {
				// Clear also drops the parents property: restore it (acknowledged op).
				if _, e2 := loc.SetParents(drv.Ctx(), []string{"parent"}); e2 == nil {
					m.Put(ref.PropId("", "parents"), map[string]interface{}{"id": "", "!parents": []interface{}{"parent"}, "deleteWith": []interface{}{""}})
				}
			}
		}
	}
	key := o.Loc + "/" + o.Id
	if err != nil {
		o.Err = err.Error()
		if o.Op == "clear" {
			for id := range m.Items {
				w.unknown[o.Loc+"/"+id] = true
			}
		} else {
			w.unknown[key] = true
		}
	} else if o.Op != "enable" {
		delete(w.unknown, key)
	}
}

type obs struct {
	Ids  map[string][]string
	Err  string
	Disp string
}

func (w *world) dispatch(event map[string]interface{}) obs {
	fr := &core.FindRules{Event: ref.CloneMap(event)}
	fr.Do(drv.Ctx(), w.child)
	o := obs{Ids: map[string][]string{}}
	if fr.Disposition == nil {
		o.Err = "no disposition"
		return o
	}
	if fr.Disposition != core.Complete {
		o.Err = fr.Disposition.Msg
		return o
	}
	for _, c := range fr.Children {
		bs := make([]ref.B, len(c.Bindingss))
		for i, b := range c.Bindingss {
			bs[i] = ref.B(b)
		}
		o.Ids[c.Rule.Id] = ref.CanonSetU(bs)
	}
	return o
}

func (w *world) expected(event map[string]interface{}) map[string][]string {
	exp := w.mc.Dispatch(event, w.mc)
	if w.parent != nil {
		for id, b := range w.mp.Dispatch(event, w.mc) {
			exp[id] = b
		}
	}
	return exp
}

func (w *world) whenOf(id string) map[string]interface{} {
	for _, m := range []*ref.Loc{w.mc, w.mp} {
		if it, ok := m.Items[id]; ok {
			if rb := ref.RuleBody(it); rb != nil {
				if p, ok := ref.WhenPattern(rb); ok {
					return p
				}
			}
		}
	}
	return nil
}

func hasBoolPair(x interface{}) bool {
	switch v := x.(type) {
	case map[string]interface{}:
		for _, e := range v {
			if hasBoolPair(e) {
				return true
			}
		}
	case []interface{}:
		n := 0
		for _, e := range v {
			if _, ok := e.(bool); ok {
				n++
			}
			if hasBoolPair(e) {
				return true
			}
		}
		return n >= 2
	}
	return false
}

func main() {
	e := rep.GetEnv()
	r := rep.New(e)
	g := gen.New(e.BatchSeed())
	nHist := e.Pick(200, 1500)
	ids := []string{"r1", "r2", "r3", "r4"}
	pids := []string{"p1", "p2"}

	directed(r)

	for h := 0; h < nHist; h++ {
		withParent := g.Intn(3) == 0
		steps := 8 + g.Intn(23)
		// one generated history, replayed identically on both state kinds
		hg := gen.New(e.BatchSeed()*7919 + int64(h))
		hg.Lookalikes = h%2 == 1
		var hist []op
		for s := 0; s < steps; s++ {
			o := op{Loc: "child"}
			idspace := ids
			if withParent && hg.Intn(3) == 0 {
				o.Loc = "parent"
				idspace = pids
			}
			o.Id = idspace[hg.Intn(len(idspace))]
			switch k := hg.Intn(20); {
			case k < 9:
				o.Op = "addRule"
				o.When = hg.PatternMapFrom(hg.Map(1 + hg.Intn(2)))
				o.Sched = hg.Intn(12) == 0
				o.Expire = hg.Intn(8) == 0
				o.Implicit = hg.Intn(8) == 0 // the pattern given directly as the `when` value
				if !o.Sched && hg.Intn(12) == 0 {
					o.EmptySched = 1 + hg.Intn(2) // "schedule":"" or null next to the `when`: no schedule
				}
				if hg.Intn(6) == 0 {
					o.Dep = "dep" // the rule leaves when the fact "dep" is removed (whether or not it exists now)
				}
				if hg.Intn(10) == 0 {
					// a property variable (the only key of its map) next to rules that name keys
					for _, v := range hg.Map(1) {
						if hg.Intn(2) == 0 {
							v = "?v"
						}
						o.When = map[string]interface{}{[]string{"?p", "?k"}[hg.Intn(2)]: v}
						break
					}
				}
			case k < 12:
				o.Op = "remRule"
			case k < 14:
				o.Op = "addFact"
				o.Fact = hg.Map(1)
			case k < 15:
				o.Op = "remFact"
				if hg.Intn(2) == 0 {
					o.Id = "dep" // cascade: the rules that name it in deleteWith leave with it
				}
			case k < 19:
				o.Op = "enable"
				o.On = hg.Intn(2) == 0
				if withParent && hg.Intn(2) == 0 {
					o.Loc = "child"
					o.Id = pids[hg.Intn(len(pids))]
				}
			default:
				o.Op = "clear"
			}
			if o.When != nil && (!gen.InFragment(o.When) || hasBoolPair(o.When)) {
				s--
				continue
			}
			hist = append(hist, o)
		}
		// events per step are generated once, too
		evs := make([][]map[string]interface{}, len(hist))
		var former []map[string]interface{}
		for s, o := range hist {
			if o.When != nil {
				former = append(former, o.When)
			}
			n := 6 + hg.Intn(5)
			for i := 0; i < n; i++ {
				var ev map[string]interface{}
				if len(former) > 0 && hg.Intn(5) > 0 {
					ev, _ = hg.DataFrom(former[hg.Intn(len(former))]).(map[string]interface{})
				}
				if ev == nil {
					ev = hg.Map(2)
				}
				if !gen.InFragmentLoose(ev) || gen.HasVarString(ev) {
					continue
				}
				evs[s] = append(evs[s], ref.Norm(ev).(map[string]interface{}))
			}
		}
		for _, kind := range drv.Kinds {
			w, err := newWorld(kind, withParent)
			if err != nil {
				r.Violate("", "cannot build locations: "+err.Error(), nil)
				continue
			}
			run := make([]op, 0, len(hist))
			for s := range hist {
				o := hist[s]
				r.Journal(rep.J{"kind": kind, "hist": h, "step": s, "op": o})
				w.apply(&o)
				run = append(run, o)
				for _, ev := range evs[s] {
					judge(r, w, run, ev, former)
				}
			}
		}
	}
	r.Write()
	fmt.Fprintf(os.Stderr, "c01 batch %d: %d evaluations\n", e.Batch, r.Evaluations)
}

func matchesFormer(ev map[string]interface{}, former []map[string]interface{}) bool {
	for _, p := range former {
		if len(ref.Match(p, ev, ref.B{})) > 0 {
			return true
		}
	}
	return false
}

func judge(r *rep.Report, w *world, run []op, ev map[string]interface{}, former []map[string]interface{}) {
	exp := w.expected(ev)
	got := w.dispatch(ev)
	nontrivial := len(exp) > 0 || matchesFormer(ev, former)
	r.Case(nontrivial, w.kind+ref.Canon([]interface{}{run, ev}))
	if len(exp) > 0 {
		r.Count("events_with_expected_dispatch", 1)
	}
	if w.parent != nil {
		r.Count("with_parent", 1)
	}
	wit := func() rep.J {
		return rep.J{"state": w.kind, "with_parent": w.parent != nil, "history": run, "event": ev, "expected": exp, "got": got.Ids, "error": got.Err}
	}
	if got.Err != "" {
		if strings.Contains(got.Err, "not sortable") && ref.HasUnsortableArray(ev) {
			r.Violate("c01.unsortable-event-array", "dispatch aborted: "+got.Err, wit())
			return
		}
		r.Violate("", "dispatch failed although the model expects success: "+got.Err, wit())
		return
	}
	bad := false
	for id, eb := range exp {
		if w.unknown["child/"+id] || w.unknown["parent/"+id] {
			continue
		}
		gb, ok := got.Ids[id]
		if !ok {
			when := w.whenOf(id)
			switch {
			case ref.HasMixedArray(when):
				r.Violate("c01.mixed-array-pattern", "matching rule not dispatched (its `when` has an array mixing a variable and constants)", wit())
			case w.kind == "indexed" && ref.HasOptionalVar(when):
				r.Violate("c01.optional-variable", "matching rule not dispatched in indexed state (its `when` has an optional variable whose key the event lacks)", wit())
			case ref.HasEmptyContainer(when):
				r.Violate("c01.when-empty-container", "matching rule not dispatched (its `when` contains an empty map/array)", wit())
			default:
				r.Violate("", "a stored, enabled rule whose `when` matches was not dispatched: "+id, wit())
			}
			bad = true
			continue
		}
		if !ref.SameSet(gb, eb) {
			if ref.HasRepeatedVar(w.whenOf(id), nil) && ref.Subset(eb, gb) && ref.Subset(gb, ref.CanonSetU(ref.MatchLoose(w.whenOf(id), ev, ref.B{}))) {
				r.Violate("c01.repeated-var-structured", "bindings differ only by the sheens repeated-variable reading (see C05)", wit())
			} else {
				r.Violate("", "rule "+id+" dispatched with wrong bindings", wit())
			}
			bad = true
		}
	}
	for id := range got.Ids {
		if w.unknown["child/"+id] || w.unknown["parent/"+id] {
			continue
		}
		if _, ok := exp[id]; !ok {
			if wh := w.whenOf(id); wh != nil && ref.HasRepeatedVar(wh, nil) && ref.Subset(got.Ids[id], ref.CanonSetU(ref.MatchLoose(wh, ev, ref.B{}))) {
				r.Violate("c01.repeated-var-structured", "dispatched only under the sheens repeated-variable reading (see C05)", wit())
			} else {
				r.Violate("", "rule "+id+" was dispatched although the model says it must not be (removed / replaced / disabled / scheduled / not matching)", wit())
			}
			bad = true
		}
	}
	if !bad && len(exp) > 0 && len(run)%5 == 0 {
		// the same observation through the whole ProcessEvent path (actions run)
		fr, cond := w.child.ProcessEvent(drv.Ctx(), core.Map(ref.CloneMap(ev)))
		r.Count("full_process_event", 1)
		if cond != nil {
			r.Violate("", "ProcessEvent failed although FindRules.Do succeeded: "+cond.Msg, wit())
		} else {
			ids := map[string]bool{}
			for _, c := range fr.Children {
				ids[c.Rule.Id] = true
			}
			nexec := 0
			for id, b := range exp {
				if w.unknown["child/"+id] || w.unknown["parent/"+id] {
					continue
				}
				_ = b
				if !ids[id] {
					r.Violate("", "ProcessEvent did not evaluate rule "+id, wit())
				}
			}
			for _, c := range fr.Children {
				// one action per rule; identical bindings may be reported more than
				// once by the matcher (two layings), so count what dispatch reported
				nexec += len(c.Bindingss)
			}
			if len(w.unknown) == 0 && len(fr.Values) != nexec {
				r.Violate("", fmt.Sprintf("ProcessEvent produced %d action values, expected %d (one action per rule and binding)", len(fr.Values), nexec), wit())
			}
			// the same event submitted by a script (as a rule action would) reaches the same rules
			// (not compared when a stored rule has a repeated variable: over structured values the
			// matcher's answer for such a pattern varies from call to call, a listed finding)
			for _, m := range []*ref.Loc{w.mc, w.mp} {
				if m == nil {
					continue
				}
				for id := range m.Items {
					if wh := w.whenOf(id); wh != nil && ref.HasRepeatedVar(wh, nil) {
						return
					}
				}
			}
			ej, _ := json.Marshal(ev)
			x, jerr := w.child.RunJavascript(drv.Ctx(), "var w = Env.ProcessEvent("+string(ej)+"); var ids = []; for (var i = 0; i < w.Children.length; i++) { ids.push(w.Children[i].Rule.Id); }; ids.sort(); JSON.stringify([ids, w.Values.length])", nil, nil, nil)
			r.Count("events_submitted_by_a_script", 1)
			direct := []string{}
			for id := range ids {
				direct = append(direct, id)
			}
			sort.Strings(direct)
			dj, _ := json.Marshal([]interface{}{direct, len(fr.Values)})
			if jerr != nil || fmt.Sprint(x) != string(dj) {
				wt := wit()
				wt["script_result"], wt["script_error"], wt["direct_result"] = fmt.Sprint(x), drv.ErrStr(jerr), string(dj)
				r.Violate("", "an event submitted by a script (Env.ProcessEvent) does not reach the rules (or run the actions) that the same event reaches when submitted directly", wt)
			}
		}
	}
	if !bad && len(exp) > 0 && r.WantSample() {
		ids := []string{}
		for id := range exp {
			ids = append(ids, id)
		}
		sort.Strings(ids)
		r.Sample(rep.J{"state": w.kind, "history_len": len(run), "last_op": run[len(run)-1], "event": ev, "dispatched": exp})
	}
}

// directed runs the reproducers of listed (open and fixed) findings as ordinary cases.
func directed(r *rep.Report) {
	type sc struct {
		name string
		ops  []op
		evs  []map[string]interface{}
	}
	P := func(kv ...interface{}) map[string]interface{} {
		m := map[string]interface{}{}
		for i := 0; i+1 < len(kv); i += 2 {
			m[kv[i].(string)] = ref.Norm(kv[i+1])
		}
		return m
	}
	scs := []sc{
		{"empty-map-when", []op{{Op: "addRule", Loc: "child", Id: "r1", When: P("a", map[string]interface{}{})}},
			[]map[string]interface{}{P("a", P("x", 1)), P("a", 1)}},
		{"empty-when", []op{{Op: "addRule", Loc: "child", Id: "r1", When: P()}},
			[]map[string]interface{}{P("a", 1)}},
		{"empty-array-when", []op{{Op: "addRule", Loc: "child", Id: "r1", When: P("a", []interface{}{})}, {Op: "addRule", Loc: "child", Id: "r2", When: P("b", P("c", []interface{}{}))}},
			[]map[string]interface{}{P("a", []interface{}{"x"}), P("b", P("c", []interface{}{1}))}},
		{"readd-other-when", []op{{Op: "addRule", Loc: "child", Id: "r1", When: P("a", "s1")}, {Op: "addRule", Loc: "child", Id: "r1", When: P("b", "s2")}, {Op: "addRule", Loc: "child", Id: "r2", When: P("a", "?x")}, {Op: "remRule", Loc: "child", Id: "r1"}},
			[]map[string]interface{}{P("a", "s1"), P("b", "s2")}},
		{"overwrite-by-fact", []op{{Op: "addRule", Loc: "child", Id: "r1", When: P("a", "s1")}, {Op: "addRule", Loc: "child", Id: "r2", When: P("a", "?x")}, {Op: "addFact", Loc: "child", Id: "r1", Fact: P("k", "x")}},
			[]map[string]interface{}{P("a", "s1")}},
		{"overwrite-by-scheduled", []op{{Op: "addRule", Loc: "child", Id: "r1", When: P("a", "s1")}, {Op: "addRule", Loc: "child", Id: "r1", Sched: true}},
			[]map[string]interface{}{P("a", "s1")}},
		{"unsortable-event", []op{{Op: "addRule", Loc: "child", Id: "r1", When: P("a", []interface{}{"s1"})}},
			[]map[string]interface{}{P("a", []interface{}{"s1", 1})}},
		{"implicit-when", []op{{Op: "addRule", Loc: "child", Id: "r1", When: P("wants", "?x"), Implicit: true}, {Op: "addRule", Loc: "child", Id: "r2", When: P("wants", "tea", "n", "?n"), Implicit: true}},
			[]map[string]interface{}{P("wants", "beer"), P("wants", "tea", "n", 2)}},
		{"property-variable-next-to-constant-key", []op{{Op: "addRule", Loc: "child", Id: "r1", When: P("a", 2)}, {Op: "addRule", Loc: "child", Id: "r2", When: P("?p", 1)}, {Op: "addRule", Loc: "child", Id: "r3", When: P("?k", "?v")}},
			[]map[string]interface{}{P("a", 1), P("a", 2), P("b", 1)}},
		{"property-variable-after-removal", []op{{Op: "addRule", Loc: "child", Id: "r1", When: P("a", "x")}, {Op: "remRule", Loc: "child", Id: "r1"}, {Op: "addRule", Loc: "child", Id: "r2", When: P("?k", "b")}},
			[]map[string]interface{}{P("a", "b")}},
		{"empty-schedule", []op{{Op: "addRule", Loc: "child", Id: "r1", When: P("a", "s1"), EmptySched: 1}, {Op: "addRule", Loc: "child", Id: "r2", When: P("a", "?x"), EmptySched: 2}},
			[]map[string]interface{}{P("a", "s1")}},
		{"optional-variable", []op{{Op: "addRule", Loc: "child", Id: "r1", When: P("a", "s1", "b", "??y")}},
			[]map[string]interface{}{P("a", "s1"), P("a", "s1", "b", "here")}},
		// JSON -0 (and -0.0) decodes to a negative zero, which equals 0 for the matcher
		{"negative-zero", []op{{Op: "addRule", Loc: "child", Id: "r1", When: P("n", 0.0)}, {Op: "addRule", Loc: "child", Id: "r2", When: P("n", math.Copysign(0, -1))}, {Op: "addRule", Loc: "child", Id: "r3", When: P("m", []interface{}{math.Copysign(0, -1), 1.0})}},
			[]map[string]interface{}{P("n", math.Copysign(0, -1)), P("n", 0.0), P("m", []interface{}{0.0, 1.0, 2.0})}},
		{"mixed-array", []op{{Op: "addRule", Loc: "child", Id: "r1", When: P("b", []interface{}{"", "?x", "s2"})}},
			[]map[string]interface{}{P("b", []interface{}{"", "s2", "y"})}},
	}
	for _, s := range scs {
		for _, kind := range drv.Kinds {
			w, err := newWorld(kind, false)
			if err != nil {
				continue
			}
			var run []op
			var former []map[string]interface{}
			for i := range s.ops {
				o := s.ops[i]
				if o.When != nil {
					former = append(former, o.When)
				}
				r.Journal(rep.J{"directed": s.name, "kind": kind, "op": o})
				w.apply(&o)
				run = append(run, o)
			}
			for _, ev := range s.evs {
				judge(r, w, run, ev, former)
			}
		}
	}
}
