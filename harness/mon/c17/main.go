// Monitor for C17: the location cache is transparent.
//   twin:    request histories over 3 locations under TTL {never, 1ms, forever}
//            x CheckExistence {off, on} x state {indexed, linear}, compared
//            with each other and with operating core.Locations directly;
//   first:   N concurrent first requests (seeded delays in sys.open.gap, and
//            one forced schedule: an opener parked inside the gap): one load,
//            one instance, no acknowledged write lost;
//   overlap: >=3 overlapping requests on one location under TTL never, a
//            per-key register history checked with porcupine.
package main

import (
	"fmt"
	"math/rand"
	"os"
	"sort"
	"strings"
	"sync"
	"time"

	"github.com/Comcast/rulio/core"
	"github.com/Comcast/rulio/cron"
	"github.com/Comcast/rulio/sys"
	"github.com/anishathalye/porcupine"

	"verif/lib/cronner"
	"verif/lib/drv"
	"verif/lib/hook"
	"verif/lib/rep"
)

var ttls = map[string]time.Duration{"never": sys.Never, "1ms": time.Millisecond, "forever": sys.Forever}

func genHistory(rng *rand.Rand, n int) []drv.Req {
	locs := []string{"x", "y", "z"}
	ids := []string{"a", "b", "c"}
	var h []drv.Req
	for i := 0; i < n; i++ {
		l := locs[rng.Intn(3)]
		id := ids[rng.Intn(3)]
		r := drv.Req{Loc: l}
		switch rng.Intn(13) {
		case 0, 1, 2:
			r.Op, r.Id, r.Doc = "addFact", id, fmt.Sprintf(`{"k":"v%d","n":%d,"at":%q}`, rng.Intn(3), i, l)
		case 3:
			r.Op, r.Id, r.Doc = "addRule", "r"+id, fmt.Sprintf(`{"when":{"pattern":{"go":"?g"}},"action":{"code":"location + ':' + g + ':%d'"}}`, i)
		case 4:
			r.Op, r.Doc = "event", fmt.Sprintf(`{"go":"e%d"}`, i)
		case 5:
			r.Op, r.Doc = "search", fmt.Sprintf(`{"k":"v%d","at":"?w"}`, rng.Intn(3))
		case 6:
			r.Op, r.Id = "remFact", id
		case 7:
			r.Op, r.Id = "getFact", id
		case 8:
			r.Op = "listRules"
		case 9:
			r.Op, r.Id, r.On = "enable", "r"+id, rng.Intn(2) == 0
		case 10:
			r.Op, r.Id = "remRule", "r"+id
		case 11:
			switch rng.Intn(4) {
			case 0: // the per-location cache TTL property (milliseconds); a value that is not a number is ignored
				r.Op, r.Id, r.Doc = "addFact", "", []string{`{"!cacheTTL":3}`, `{"!cacheTTL":"soon"}`, `{"!cacheTTL":0}`}[rng.Intn(3)]
			case 1:
				r.Op = "clear"
			default:
				r.Op, r.Id = "getFact", "r"+id
			}
		default:
			r.Op, r.Id = "getFact", "r"+id
		}
		h = append(h, r)
	}
	return h
}

// expiredCounted: facts written with a short ttl at a location that is exactly full, then left
// alone until they have expired.  Size and capacity answers must not depend on the cache TTL
// (a reloaded location has purged them, a cached one still counts them: listed finding).
func expiredCounted(r *rep.Report) {
	for _, linear := range []bool{false, true} {
		got := map[string]string{}
		for ttlName, ttl := range ttls {
			s, err := drv.NewSys(drv.SysOpts{Linear: linear, TTL: ttl, MaxFacts: 3}, cronner.New(true))
			if err != nil {
				continue
			}
			for i := 0; i < 3; i++ {
				drv.SysDo(s, drv.Req{Op: "addFact", Loc: "X", Id: fmt.Sprintf("e%d", i), Doc: `{"k":"short","ttl":1}`})
			}
			time.Sleep(2100 * time.Millisecond)
			n, serr := s.GetSize(drv.Ctx(), "X")
			add := drv.SysDo(s, drv.Req{Op: "addFact", Loc: "X", Id: "late", Doc: `{"k":"late"}`})
			if strings.HasPrefix(add, "ERR:") {
				add = "refused"
			}
			got[ttlName] = fmt.Sprintf("size=%d (%v), add at capacity: %s", n, serr, add)
		}
		r.Case(true, fmt.Sprint("expired-counted", linear))
		r.Count("expired_counted_cases", 1)
		// building a System sets the process-wide default location control: put the harness default back
		drv.NewSys(drv.SysOpts{TTL: sys.Forever}, cronner.New(true))
		if got["forever"] != got["never"] || got["forever"] != got["1ms"] {
			r.Violate("c17.expired-counted", "size and capacity answers about a location whose facts have all expired depend on the cache TTL", rep.J{"linear": linear, "max_facts": 3, "answers_by_ttl": got})
		}
	}
}

// reusedContext: existence checking on, and a client (an embedding program, the batch endpoint) that
// uses ONE Context for its consecutive requests.  A location that was never created, or was deleted,
// stays "not found" for the second and third request as it was for the first, under every TTL.
func reusedContext(r *rep.Report) {
	for ttlName, ttl := range ttls {
		for _, linear := range []bool{false, true} {
			s, err := drv.NewSys(drv.SysOpts{Linear: linear, TTL: ttl, CheckExistence: true}, cronner.New(true))
			if err != nil {
				r.Violate("", "cannot build system: "+err.Error(), nil)
				continue
			}
			ctx := drv.Ctx()
			var answers []string
			for i := 0; i < 3; i++ {
				_, err := s.AddFact(ctx, "nowhere", fmt.Sprintf("f%d", i), `{"a":1}`)
				answers = append(answers, "add to a never-created location: "+drv.ErrStr(err))
			}
			s.CreateLocation(ctx, "gone")
			s.AddFact(ctx, "gone", "g", `{"a":1}`)
			s.DeleteLocation(ctx, "gone")
			for i := 0; i < 2; i++ {
				_, err := s.AddRule(ctx, "gone", fmt.Sprintf("r%d", i), `{"when":{"pattern":{"a":"b"}},"action":{"code":"1"}}`)
				answers = append(answers, "rule into a deleted location: "+drv.ErrStr(err))
			}
			st, _ := s.PeekStorage(drv.Ctx())
			stored := 0
			if ms, ok := st.(*core.MemStorage); ok && ms != nil {
				ms.Lock()
				stored = len(ms.State(nil)["nowhere"]) + len(ms.State(nil)["gone"])
				ms.Unlock()
			}
			r.Case(true, fmt.Sprint("reused-context", ttlName, linear))
			r.Count("reused_context_cases", 1)
			bad := stored != 0
			for _, a := range answers {
				if strings.HasSuffix(a, ": ") {
					bad = true // no error
				}
			}
			if bad {
				r.Violate("", "with one Context used for consecutive requests, a never-created or deleted location accepted a write under existence checking", rep.J{"ttl": ttlName, "linear": linear, "answers": answers, "records_stored_for_these_locations": stored})
			}
		}
	}
}

func twin(r *rep.Report, e rep.Env) {
	if e.Batch == 0 {
		expiredCounted(r)
		reusedContext(r)
	}
	nHist := e.Pick(10, 80)
	for hi := 0; hi < nHist; hi++ {
		rng := rand.New(rand.NewSource(e.BatchSeed()*817504243 + int64(hi)))
		hist := genHistory(rng, 15+rng.Intn(15))
		pauses := make([]bool, len(hist))
		for i := range pauses {
			pauses[i] = rng.Intn(3) == 0
		}
		r.Journal(rep.J{"twin": hi, "history": hist})
		for _, linear := range []bool{false, true} {
			kind := "indexed"
			if linear {
				kind = "linear"
			}
			// reference: operating core.Locations directly
			direct := map[string]*core.Location{}
			for _, l := range []string{"x", "y", "z"} {
				// the System wires cron hooks to every location's state (they make removing an
				// absent id an error): the directly operated locations get the same hooks
				ctx := drv.Ctx()
				st, _ := drv.NewState(ctx, kind, l, drv.MustMem())
				cron.AddHooks(ctx, cronner.New(true), st)
				loc, _ := core.NewLocation(ctx, l, st, nil)
				direct[l] = loc
			}
			var want []string
			for _, q := range hist {
				want = append(want, drv.LocDo(direct[q.Loc], q))
			}
			for ttlName, ttl := range ttls {
				for _, check := range []bool{false, true} {
					s, err := drv.NewSys(drv.SysOpts{Linear: linear, TTL: ttl, CheckExistence: check}, cronner.New(true))
					if err != nil {
						r.Violate("", "cannot build system: "+err.Error(), nil)
						continue
					}
					cfg := rep.J{"ttl": ttlName, "check_existence": check, "state": kind}
					if check {
						// a request to a location that was never created must fail and leave no trace
						out := drv.SysDo(s, drv.Req{Op: "addFact", Loc: "ghost", Id: "g", Doc: `{"a":1}`})
						out2 := drv.SysDo(s, drv.Req{Op: "getFact", Loc: "ghost", Id: "g"})
						st, _ := s.PeekStorage(drv.Ctx())
						trace := false
						if ms, ok := st.(*core.MemStorage); ok && ms != nil {
							ms.Lock()
							trace = len(ms.State(nil)["ghost"]) > 0
							ms.Unlock()
						}
						cached := false
						for _, n := range s.GetCachedLocations(drv.Ctx()) {
							if n == "ghost" {
								cached = true
							}
						}
						r.Count("ghost_requests", 2)
						if !strings.HasPrefix(out, "ERR:") || out2 == "notfound" && false {
							r.Violate("", "with existence checking a request to a never-created location succeeded", rep.J{"config": cfg, "result": out})
						}
						if trace || cached {
							r.Violate("", "with existence checking a request to a never-created location left a trace (storage or cache)", rep.J{"config": cfg, "in_storage": trace, "in_cache": cached})
						}
						for _, l := range []string{"x", "y", "z"} {
							if out := drv.SysDo(s, drv.Req{Op: "create", Loc: l}); out != "ok" {
								r.Violate("", "CreateLocation failed: "+out, rep.J{"config": cfg})
							}
						}
					}
					reopened := false
					for i, q := range hist {
						if pauses[i] && ttlName != "forever" {
							time.Sleep(1500 * time.Microsecond)
							reopened = true
						}
						got := drv.SysDo(s, q)
						w := want[i]
						ok := got == w || (strings.HasPrefix(got, "ERR:") && strings.HasPrefix(w, "ERR:") && strings.Contains(got, "not found") == strings.Contains(w, "not found"))
						r.Case(ttlName != "forever" && reopened, fmt.Sprint(e.BatchSeed(), hi, kind, ttlName, check, i))
						if !ok {
							r.Violate("", "a request through the System returns something else than operating the location directly / under another cache setting", rep.J{"config": cfg, "history": hist[:i+1], "request": q, "got": got, "direct": w})
							break
						}
					}
					ghostParent := false
					if check && !broken(r) {
						// a never-created location named as a parent gets opened (without the existence
						// check) by an inherited search; direct requests to it must still fail, under every TTL
						ghostParent = true
						p1 := drv.SysDo(s, drv.Req{Op: "setParents", Loc: "x", Doc: `["ghostparent"]`})
						p2 := drv.SysDo(s, drv.Req{Op: "search", Loc: "x", Doc: `{"k":"?v"}`})
						out := drv.SysDo(s, drv.Req{Op: "addFact", Loc: "ghostparent", Id: "g", Doc: `{"a":1}`})
						out2 := drv.SysDo(s, drv.Req{Op: "search", Loc: "ghostparent", Doc: `{"a":"?x"}`, NoInherit: true})
						st, _ := s.PeekStorage(drv.Ctx())
						trace := false
						if ms, ok := st.(*core.MemStorage); ok && ms != nil {
							ms.Lock()
							trace = len(ms.State(nil)["ghostparent"]) > 0
							ms.Unlock()
						}
						r.Count("ghost_parent_requests", 2)
						r.Case(true, fmt.Sprint(e.BatchSeed(), hi, kind, ttlName, "ghostparent"))
						wit := rep.J{"config": cfg, "setParents": p1, "inherited_search_at_child": p2, "addFact_at_never_created_parent": out, "search_at_never_created_parent": out2, "in_storage": trace}
						if !strings.HasPrefix(out, "ERR:") || !strings.HasPrefix(out2, "ERR:") {
							r.Violate(ghostKey(ttlName), "with existence checking a request to a never-created location succeeded after the location had been opened as somebody's parent", wit)
						} else if trace {
							r.Violate("", "with existence checking a refused request to a never-created location left a trace in storage", wit)
						}
					}
					deleted := false
					if check {
						// a location that was created and then deleted is a never-created location again
						deleted = true
						c1 := drv.SysDo(s, drv.Req{Op: "create", Loc: "dl"})
						a1 := drv.SysDo(s, drv.Req{Op: "addFact", Loc: "dl", Id: "d1", Doc: `{"a":1}`})
						derr := s.DeleteLocation(drv.Ctx(), "dl")
						a2 := drv.SysDo(s, drv.Req{Op: "addFact", Loc: "dl", Id: "d2", Doc: `{"a":2}`})
						g2 := drv.SysDo(s, drv.Req{Op: "getFact", Loc: "dl", Id: "d1"})
						r.Count("requests_after_delete_location", 2)
						r.Case(true, fmt.Sprint(e.BatchSeed(), hi, kind, ttlName, "deleted"))
						wit := rep.J{"config": cfg, "create": c1, "add_before_delete": a1, "delete_error": drv.ErrStr(derr), "add_after_delete": a2, "get_after_delete": g2}
						if c1 != "ok" || !strings.HasPrefix(a1, "id=") || derr != nil {
							r.Violate("", "create / add / delete of a location failed", wit)
						} else if !strings.HasPrefix(a2, "ERR:") || !(strings.HasPrefix(g2, "ERR:") || g2 == "notfound") {
							r.Violate("", "with existence checking a request to a location that was deleted (and not created again) succeeded", wit)
						}
					}
					if ttlName == "forever" {
						stats, _ := s.GetStats(drv.Ctx())
						want := uint64(3)
						if check {
							want = 4 // + the ghost attempt
						}
						if deleted {
							want += 3 // create, and the attempts after the delete
						}
						if ghostParent {
							want++
						}
						if stats != nil && stats.NewLocations > want+1 {
							r.Violate("", fmt.Sprintf("with TTL forever %d locations were loaded for 3 names", stats.NewLocations), rep.J{"config": cfg})
						}
					}
					if hi == 0 && r.WantSample() {
						r.Sample(rep.J{"config": cfg, "history_head": hist[:5], "results_head": want[:5]})
					}
				}
			}
		}
	}
}

func broken(r *rep.Report) bool { return false }

func ghostKey(ttl string) string { return "" }

// first: concurrent first requests for one location.
func first(r *rep.Report, e rep.Env) {
	rounds := e.Pick(40, 300)
	for round := 0; round < rounds; round++ {
		linear := round%2 == 1
		ttlName := []string{"forever", "never", "1ms"}[round%3]
		s, err := drv.NewSys(drv.SysOpts{Linear: linear, TTL: ttls[ttlName]}, cronner.New(true))
		if err != nil {
			continue
		}
		n := 8
		forced := round%4 == 0 && hook.Enabled()
		r.Journal(rep.J{"first": round, "ttl": ttlName, "linear": linear, "forced_schedule": forced})
		acks := make([]string, n)
		var wg sync.WaitGroup
		if forced {
			// client 0 is parked inside the gap between the cache-table unlock and the load;
			// client 1 runs to completion meanwhile; then client 0 is released.
			arrived, release := hook.Park("sys.open.gap")
			wg.Add(1)
			go func() {
				defer wg.Done()
				acks[0] = drv.SysDo(s, drv.Req{Op: "addFact", Loc: "F", Id: "w0", Doc: `{"by":0}`})
			}()
			select {
			case <-arrived:
			case <-time.After(5 * time.Second):
			}
			done := make(chan struct{})
			go func() {
				acks[1] = drv.SysDo(s, drv.Req{Op: "addFact", Loc: "F", Id: "w1", Doc: `{"by":1}`})
				close(done)
			}()
			select {
			case <-done:
			case <-time.After(300 * time.Millisecond):
				// the second opener waits for the first (that is fine): release and let both finish
			}
			release()
			wg.Wait()
			<-done
			n = 2
		} else {
			hook.Delays(e.BatchSeed()+int64(round), 0.7, 3*time.Millisecond, "sys.open.gap", "sys.storage.gap")
			gate := make(chan struct{})
			for c := 0; c < n; c++ {
				wg.Add(1)
				go func(c int) {
					defer wg.Done()
					<-gate
					acks[c] = drv.SysDo(s, drv.Req{Op: "addFact", Loc: "F", Id: fmt.Sprintf("w%d", c), Doc: fmt.Sprintf(`{"by":%d}`, c)})
				}(c)
			}
			close(gate)
			wg.Wait()
			hook.Off()
		}
		r.Case(true, fmt.Sprint(e.BatchSeed(), "first", round))
		wit := rep.J{"ttl": ttlName, "linear": linear, "forced_schedule": forced, "acks": acks[:n]}
		// every acknowledged write must be served afterwards
		lost := []string{}
		for c := 0; c < n; c++ {
			if strings.HasPrefix(acks[c], "id=") {
				if got := drv.SysDo(s, drv.Req{Op: "getFact", Loc: "F", Id: fmt.Sprintf("w%d", c)}); got == "notfound" || strings.HasPrefix(got, "ERR") {
					lost = append(lost, fmt.Sprintf("w%d -> %s", c, got))
				}
			} else {
				r.Violate("", "a first request failed: "+acks[c], wit)
			}
		}
		if len(lost) > 0 {
			wit["lost"] = lost
			key := ""
			if ttlName != "forever" && !forced {
				key = "c17.release-evicts-in-use" // overlapping requests under a finite TTL: the listed finding
			}
			r.Violate(key, "an acknowledged write of a concurrent first request is not served afterwards (the location was loaded twice)", wit)
		}
		if ttlName == "forever" {
			if stats, _ := s.GetStats(drv.Ctx()); stats != nil && stats.NewLocations != 1 {
				wit["loads"] = stats.NewLocations
				r.Violate("", fmt.Sprintf("concurrent first requests loaded the location %d times", stats.NewLocations), wit)
			}
		}
		if forced && r.WantSample() {
			r.Sample(wit)
		}
	}
	r.Note("hook_hits", hook.Hits())
}

// firstGhost: concurrent first requests for a location that was never created, with existence
// checking on: the load of each entry fails.  Every request must come back with "not found"
// (no hang: failing loads and waiting requests take the cache-table and the entry lock), the
// location stays out of cache and storage, and other locations keep being served.
func firstGhost(r *rep.Report, e rep.Env) bool {
	rounds := e.Pick(12, 80)
	for round := 0; round < rounds; round++ {
		linear := round%2 == 1
		ttlName := []string{"forever", "never", "1ms"}[round%3]
		s, err := drv.NewSys(drv.SysOpts{Linear: linear, TTL: ttls[ttlName], CheckExistence: true}, cronner.New(true))
		if err != nil {
			continue
		}
		r.Journal(rep.J{"first_ghost": round, "ttl": ttlName, "linear": linear})
		hook.Delays(e.BatchSeed()+int64(round)+5000, 0.7, 3*time.Millisecond, "sys.open.gap", "sys.storage.gap")
		n := 6
		acks := make([]string, n+1)
		var wg sync.WaitGroup
		gate := make(chan struct{})
		for c := 0; c < n; c++ {
			wg.Add(1)
			go func(c int) {
				defer wg.Done()
				<-gate
				op := drv.Req{Op: "addFact", Loc: "G", Id: fmt.Sprintf("g%d", c), Doc: `{"a":1}`}
				if c%2 == 1 {
					op = drv.Req{Op: "search", Loc: "G", Doc: `{"a":"?x"}`, NoInherit: true}
				}
				acks[c] = drv.SysDo(s, op)
			}(c)
		}
		wg.Add(1)
		go func() {
			defer wg.Done()
			<-gate
			time.Sleep(2 * time.Millisecond)
			drv.SysDo(s, drv.Req{Op: "create", Loc: "other"})
			acks[n] = drv.SysDo(s, drv.Req{Op: "addFact", Loc: "other", Id: "o", Doc: `{"a":1}`})
		}()
		done := make(chan struct{})
		go func() { close(gate); wg.Wait(); close(done) }()
		select {
		case <-done:
		case <-time.After(30 * time.Second):
			hook.Off()
			r.Case(true, fmt.Sprint(e.BatchSeed(), "first-ghost", round))
			r.Violate("", "concurrent requests to a never-created location (and a request to another location) did not return within 30 s (deadlock?)", rep.J{"ttl": ttlName, "linear": linear, "acks_so_far": fmt.Sprint(acks)})
			return false
		}
		hook.Off()
		r.Case(true, fmt.Sprint(e.BatchSeed(), "first-ghost", round))
		r.Count("concurrent_requests_to_never_created_location", n)
		wit := rep.J{"ttl": ttlName, "linear": linear, "acks": acks}
		for c := 0; c < n; c++ {
			if !strings.HasPrefix(acks[c], "ERR:") {
				r.Violate("", "with existence checking a request to a never-created location succeeded", wit)
				break
			}
		}
		if !strings.HasPrefix(acks[n], "id=") {
			r.Violate("", "a request to another (created) location failed while requests to a never-created one were failing: "+acks[n], wit)
		}
		for _, name := range s.GetCachedLocations(drv.Ctx()) {
			if name == "G" {
				r.Violate("", "with existence checking a request to a never-created location left a trace (storage or cache)", wit)
			}
		}
	}
	return true
}

// ---- overlap: register histories under TTL never ----
type regIn struct {
	Write bool
	Key   string
	Val   string
}

var regModel = porcupine.Model{
	Partition: func(h []porcupine.Operation) [][]porcupine.Operation {
		m := map[string][]porcupine.Operation{}
		for _, o := range h {
			k := o.Input.(regIn).Key
			m[k] = append(m[k], o)
		}
		ks := []string{}
		for k := range m {
			ks = append(ks, k)
		}
		sort.Strings(ks)
		out := [][]porcupine.Operation{}
		for _, k := range ks {
			out = append(out, m[k])
		}
		return out
	},
	Init: func() interface{} { return "notfound" },
	Step: func(st, in, out interface{}) (bool, interface{}) {
		i := in.(regIn)
		if i.Write {
			return out.(string) == "ok", i.Val
		}
		return out.(string) == st.(string), st
	},
	DescribeOperation: func(i, o interface{}) string { return fmt.Sprintf("%+v -> %v", i, o) },
}

// directedStale is the minimal reproducer of the listed finding
// c17.release-evicts-in-use, run as an ordinary case: a finite TTL (150 ms), a
// request R1 that holds the first instance across the expiry and writes through
// it at the end, and two quick requests in between (the first one's release
// evicts the expired entry that R1 still uses, the second loads a new instance).
func directedStale(r *rep.Report) {
	for _, linear := range []bool{false, true} {
		s, err := drv.NewSys(drv.SysOpts{Linear: linear, TTL: 150 * time.Millisecond}, cronner.New(true))
		if err != nil {
			continue
		}
		drv.SysDo(s, drv.Req{Op: "addRule", Loc: "O", Id: "slow", Doc: `{"when":{"pattern":{"hold":"?ms","write":"?w"}},"action":{"code":"Env.sleep(ms*1000000); Env.AddFact(w, {v:'late'}); 'held'"}}`})
		time.Sleep(200 * time.Millisecond) // let the set-up entry expire: R1 opens a fresh one
		var wg sync.WaitGroup
		var r1 string
		wg.Add(1)
		go func() {
			defer wg.Done()
			r1 = drv.SysDo(s, drv.Req{Op: "event", Loc: "O", Doc: `{"hold":300,"write":"w1"}`})
		}()
		time.Sleep(200 * time.Millisecond)
		drv.SysDo(s, drv.Req{Op: "getFact", Loc: "O", Id: "nothing"}) // R2: its release evicts the expired entry R1 still uses
		time.Sleep(20 * time.Millisecond)
		drv.SysDo(s, drv.Req{Op: "getFact", Loc: "O", Id: "nothing"}) // R3: loads a second instance, cached for 150 ms
		wg.Wait()                                                     // R1 wrote w1 through the first instance and returned
		got := drv.SysDo(s, drv.Req{Op: "getFact", Loc: "O", Id: "w1"}) // starts after R1's write was acknowledged
		r.Case(true, fmt.Sprint("directed-stale", linear))
		if r1 == "held" && (got == "notfound" || strings.HasPrefix(got, "ERR")) {
			r.Violate("c17.release-evicts-in-use", "a request that started after a write was acknowledged does not see it: one request's release evicted the expired cache entry that another request still used, a second instance was loaded and is served", rep.J{"directed": true, "linear": linear, "ttl": "150ms", "writer_result": r1, "reader_result": got})
		}
	}
}

// slowEventReads: an event whose action sleeps, then notes the time and reads the location's
// facts, then writes one.  A client's write is acknowledged while the action sleeps.  If the
// action's own clock reading is later than the acknowledgement, its read must contain the
// write (operating the location directly it does: one instance); and the fact the action wrote
// must be served once the event has returned.  TTLs: never, forever, one hour (never expiring here).
func slowEventReads(r *rep.Report) {
	for _, linear := range []bool{false, true} {
		for _, ttl := range []time.Duration{sys.Never, sys.Forever, time.Hour} {
			s, err := drv.NewSys(drv.SysOpts{Linear: linear, TTL: ttl}, cronner.New(true))
			if err != nil {
				continue
			}
			drv.SysDo(s, drv.Req{Op: "addRule", Loc: "E", Id: "slow", Doc: `{"when":{"pattern":{"hold":"?ms"}},"action":{"code":"Env.sleep(ms*1000000); var t = Date.now(); var n = Env.Search({item:'?i'}).Found.length; Env.AddFact('seen', {n: n}); String(t) + ':' + n"}}`})
			var wg sync.WaitGroup
			var ev string
			wg.Add(1)
			go func() {
				defer wg.Done()
				ev = drv.SysDo(s, drv.Req{Op: "event", Loc: "E", Doc: `{"hold":300}`})
			}()
			time.Sleep(100 * time.Millisecond)
			w := drv.SysDo(s, drv.Req{Op: "addFact", Loc: "E", Id: "item1", Doc: `{"item":"one"}`})
			ackMs := time.Now().UnixNano() / 1e6
			wg.Wait()
			seen := drv.SysDo(s, drv.Req{Op: "getFact", Loc: "E", Id: "seen"})
			r.Case(true, fmt.Sprint("slow-event-reads", linear, ttl))
			r.Count("slow_event_read_cases", 1)
			wit := rep.J{"linear": linear, "ttl": ttl.String(), "event_value (action's clock ms : items it found)": ev, "write": w, "write_acknowledged_at_ms": ackMs, "seen_fact_after_event": seen}
			var t, n int64
			if _, err := fmt.Sscanf(ev, "%d:%d", &t, &n); err != nil || !strings.HasPrefix(w, "id=") {
				r.Violate("", "slow event or concurrent write did not complete as expected", wit)
				continue
			}
			if t > ackMs+2 && n < 1 {
				r.Violate("", "the action of a running event read the location after a write had been acknowledged and missed it (the event works on an instance the cache no longer serves)", wit)
			}
			if seen == "notfound" || strings.HasPrefix(seen, "ERR") {
				r.Violate("", "a fact written by an event's action is not served after the event returned", wit)
			}
		}
	}
}

func overlap(r *rep.Report, e rep.Env) {
	rounds := e.Pick(12, 80)
	if e.Batch == 0 {
		directedStale(r)
		slowEventReads(r)
	}
	for round := 0; round < rounds; round++ {
		rng := rand.New(rand.NewSource(e.BatchSeed()*39916801 + int64(round)))
		linear := round%2 == 1
		ttl := []time.Duration{sys.Never, 15 * time.Millisecond, 40 * time.Millisecond}[round%3]
		s, err := drv.NewSys(drv.SysOpts{Linear: linear, TTL: ttl}, cronner.New(true))
		if err != nil {
			continue
		}
		// a rule whose action holds its request open for a while
		drv.SysDo(s, drv.Req{Op: "addRule", Loc: "O", Id: "slow", Doc: `{"when":{"pattern":{"hold":"?ms"}},"action":{"code":"Env.sleep(ms*1000000); 'held'"}}`})
		start := time.Now()
		var mu sync.Mutex
		var ops []porcupine.Operation
		type recd struct {
			C    int    `json:"c"`
			Op   string `json:"op"`
			Call int64  `json:"call_ns"`
			Ret  int64  `json:"ret_ns"`
			Out  string `json:"out"`
		}
		var log []recd
		var wg sync.WaitGroup
		clients := 3 + rng.Intn(3)
		r.Journal(rep.J{"overlap": round, "linear": linear, "clients": clients})
		for c := 0; c < clients; c++ {
			wg.Add(1)
			seed := rng.Int63()
			go func(c int, seed int64) {
				defer wg.Done()
				lr := rand.New(rand.NewSource(seed))
				for i := 0; i < 7; i++ {
					key := []string{"k1", "k2"}[lr.Intn(2)]
					call := time.Since(start).Nanoseconds()
					var in regIn
					var out, desc string
					switch lr.Intn(5) {
					case 0, 1:
						val := fmt.Sprintf("c%d-%d", c, i)
						in = regIn{Write: true, Key: key, Val: val}
						res := drv.SysDo(s, drv.Req{Op: "addFact", Loc: "O", Id: key, Doc: fmt.Sprintf(`{"v":%q}`, val)})
						out = "ok"
						if !strings.HasPrefix(res, "id=") {
							out = res
						}
						desc = "write " + key + "=" + val
					case 2, 3:
						in = regIn{Key: key}
						res := drv.SysDo(s, drv.Req{Op: "getFact", Loc: "O", Id: key})
						out = res
						if strings.HasPrefix(res, "{") {
							out = res[strings.Index(res, `"v":"`)+5 : len(res)-2]
						}
						desc = "read " + key
					default:
						drv.SysDo(s, drv.Req{Op: "event", Loc: "O", Doc: fmt.Sprintf(`{"hold":%d}`, 5+lr.Intn(40))})
						continue
					}
					ret := time.Since(start).Nanoseconds()
					mu.Lock()
					ops = append(ops, porcupine.Operation{ClientId: c, Input: in, Call: call, Output: out, Return: ret})
					log = append(log, recd{c, desc, call, ret, out})
					mu.Unlock()
				}
			}(c, seed)
		}
		wg.Wait()
		res, _ := porcupine.CheckOperationsVerbose(regModel, ops, 30*time.Second)
		r.Case(true, fmt.Sprint(e.BatchSeed(), "overlap", round))
		r.Count("register_operations", len(ops))
		sort.Slice(log, func(i, j int) bool { return log[i].Call < log[j].Call })
		switch res {
		case porcupine.Unknown:
			r.Inconclusive("porcupine timeout")
		case porcupine.Illegal:
			key := "c17.release-evicts-in-use" // the listed finding needs a finite TTL
			if ttl == sys.Never {
				key = ""
			}
			r.Violate(key, "a read that started after a write was acknowledged did not see it (the per-key history is not linearizable): the cache served a stale instance", rep.J{"ttl": ttl.String(), "linear": linear, "clients": clients, "history": log})
		default:
			if r.WantSample() {
				r.Sample(rep.J{"stage": "overlap", "linear": linear, "clients": clients, "operations": len(ops), "verdict": "linearizable"})
			}
		}
	}
}

func main() {
	e := rep.GetEnv()
	r := rep.New(e)
	r.Note("hooks_compiled_in", hook.Enabled())
	switch e.Stage {
	case "twin":
		twin(r, e)
	case "first":
		if firstGhost(r, e) {
			first(r, e)
		}
	case "overlap":
		overlap(r, e)
	}
	r.Write()
	fmt.Fprintf(os.Stderr, "c17 %s batch %d: %d evaluations\n", e.Stage, e.Batch, r.Evaluations)
	os.Exit(0)
}
