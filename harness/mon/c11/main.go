// Monitor for C11: concurrent requests to different locations do not
// interfere.  N clients start on a barrier, each owning one location of a
// fresh engine and issuing a generated request sequence that begins with the
// engine's very first requests (sys.System, and the HTTP service for part of
// the rounds).  Oracle: the same sequences run one after the other on another
// fresh engine must give identical normalised results and final states; the
// race detector, the exit status and a watchdog cover the rest.
package main

import (
	"bytes"
	"encoding/json"
	"fmt"
	"io/ioutil"
	"math/rand"
	"net/http"
	"net/http/httptest"
	"os"
	"sort"
	"strings"
	"sync"
	"time"

	"github.com/Comcast/rulio/core"
	"github.com/Comcast/rulio/service"
	"github.com/Comcast/rulio/sys"

	"verif/lib/cronner"
	"verif/lib/drv"
	"verif/lib/hook"
	"verif/lib/ref"
	"verif/lib/rep"
)

type req struct {
	Op  string `json:"op"`
	Id  string `json:"id,omitempty"`
	Doc string `json:"doc,omitempty"`
}

type engine interface {
	do(loc string, r req) string
	close()
}

// ---- direct sys.System ----
type sysEngine struct{ s *sys.System }

// codeProps: in every other round the engine is configured with extra Env properties for scripts.
var codeProps map[string]interface{}

// timing: in every fifth round the timers are on and the table of timer names is tiny
// (SystemParameters.MaxTimers), so that every request runs into the "too many timers" branch.
var timing bool

func newSysEngine(linear bool) *sysEngine {
	s, err := drv.NewSys(drv.SysOpts{Linear: linear, TTL: sys.Forever, CodeProps: codeProps, Timing: timing}, cronner.New(true))
	if err != nil {
		panic(err)
	}
	return &sysEngine{s}
}

func (e *sysEngine) close() {}

func errOut(err error) string { return "ERR:" + err.Error() }

func normFound(srs *core.SearchResults) string {
	return strings.Join(drv.NormSearch(srs), ";")
}

func (e *sysEngine) do(loc string, r req) string {
	ctx := drv.Ctx()
	switch r.Op {
	case "addFact":
		id, err := e.s.AddFact(ctx, loc, r.Id, r.Doc)
		if err != nil {
			return errOut(err)
		}
		return "id=" + id
	case "addRule":
		id, err := e.s.AddRule(ctx, loc, r.Id, r.Doc)
		if err != nil {
			return errOut(err)
		}
		return "id=" + id
	case "remFact":
		_, err := e.s.RemFact(ctx, loc, r.Id)
		if err != nil {
			return errOut(err)
		}
		return "ok"
	case "getFact":
		js, err := e.s.GetFact(ctx, loc, r.Id)
		if err != nil {
			if strings.Contains(err.Error(), "not found") {
				return "notfound"
			}
			return errOut(err)
		}
		var m map[string]interface{}
		json.Unmarshal([]byte(js), &m)
		return ref.Canon(m)
	case "search":
		srs, err := e.s.SearchFacts(ctx, loc, r.Doc, true)
		if err != nil {
			return errOut(err)
		}
		return normFound(srs)
	case "event":
		fr, err := e.s.ProcessEvent(ctx, loc, r.Doc)
		if err != nil {
			return errOut(err)
		}
		vs := []string{}
		for _, v := range fr.Values {
			vs = append(vs, fmt.Sprint(v))
		}
		sort.Strings(vs)
		return strings.Join(vs, ",")
	case "listRules":
		rs, err := e.s.ListRules(ctx, loc, true)
		if err != nil {
			return errOut(err)
		}
		sort.Strings(rs)
		return strings.Join(rs, ",")
	case "query":
		qr, err := e.s.Query(ctx, loc, r.Doc)
		if err != nil {
			return errOut(err)
		}
		bs := make([]ref.B, len(qr.Bss))
		for i, b := range qr.Bss {
			bs[i] = ref.B(b)
		}
		return strings.Join(ref.Multiset(bs), ";")
	}
	return "?"
}

// ---- HTTP ----
type httpEngine struct {
	srv *httptest.Server
	cl  *http.Client
}

func newHTTPEngine(linear bool) *httpEngine {
	se := newSysEngine(linear)
	h, err := service.NewHTTPService(drv.Ctx(), &service.Service{System: se.s})
	if err != nil {
		panic(err)
	}
	return &httpEngine{httptest.NewServer(h), &http.Client{Timeout: 60 * time.Second}}
}

func (e *httpEngine) close() { e.srv.Close() }

func (e *httpEngine) do(loc string, r req) string {
	uri := map[string]string{"addFact": "/api/loc/facts/add", "addRule": "/api/loc/rules/add", "remFact": "/api/loc/facts/rem", "getFact": "/api/loc/facts/get",
		"search": "/api/loc/facts/search", "event": "/api/loc/events/ingest", "listRules": "/api/loc/rules/list", "query": "/api/loc/facts/query"}[r.Op]
	m := map[string]interface{}{"location": loc}
	if r.Id != "" {
		m["id"] = r.Id
	}
	if r.Doc != "" {
		var d interface{}
		json.Unmarshal([]byte(r.Doc), &d)
		key := map[string]string{"addFact": "fact", "addRule": "rule", "search": "pattern", "event": "event", "query": "query"}[r.Op]
		m[key] = d
	}
	if r.Op == "search" {
		m["inherited"] = true
	}
	body, _ := json.Marshal(m)
	resp, err := e.cl.Post(e.srv.URL+uri, "application/json", bytes.NewReader(body))
	if err != nil {
		return "ERR:transport " + err.Error()
	}
	defer resp.Body.Close()
	b, _ := ioutil.ReadAll(resp.Body)
	if resp.StatusCode != 200 {
		return fmt.Sprintf("ERR:%d %s", resp.StatusCode, strings.TrimSpace(string(b)))
	}
	var out interface{}
	if json.Unmarshal(b, &out) != nil {
		return "RAW:" + strings.TrimSpace(string(b))
	}
	if m, ok := out.(map[string]interface{}); ok && r.Op == "event" {
		delete(m, "id") // a generated request id
	}
	return ref.Canon(strip(out))
}

// strip removes fields that legitimately vary between runs.
func strip(x interface{}) interface{} {
	switch v := x.(type) {
	case map[string]interface{}:
		m := map[string]interface{}{}
		for k, e := range v {
			switch k {
			case "Elapsed", "elapsed", "Checked", "Expired", "Js", "js":
				continue
			}
			m[k] = strip(e)
		}
		return m
	case []interface{}:
		a := make([]interface{}, len(v))
		for i, e := range v {
			a[i] = strip(e)
		}
		return ref.Unordered(a)
	}
	return x
}

// ---- workload ----
func genSeq(r *rand.Rand, loc string, n int) []req {
	var out []req
	ids := []string{"a", "b", "c"}
	for i := 0; i < n; i++ {
		id := ids[r.Intn(3)]
		switch r.Intn(10) {
		case 0, 1, 2:
			out = append(out, req{"addFact", id, fmt.Sprintf(`{"owner":%q,"k":"v%d","n":%d}`, loc, r.Intn(3), i)})
		case 3:
			if r.Intn(2) == 0 {
				// an action that takes a moment, writes through the location functions and reads Env
				out = append(out, req{"addRule", "r" + id, fmt.Sprintf(`{"when":{"pattern":{"go":"?g"}},"action":{"code":"var t=0; for (var j=0;j<3000;j++){t+=j}; Env.AddFact('made-'+g, {owner: location, k: 'made', site: String(Env.site)}); Env.Location + '/' + location + ':' + g + ':%s-%d'"}}`, loc, i)})
				break
			}
			out = append(out, req{"addRule", "r" + id, fmt.Sprintf(`{"when":{"pattern":{"go":"?g"}},"action":{"code":"location + ':' + g + ':%s-%d'"}}`, loc, i)})
		case 4:
			out = append(out, req{"event", "", fmt.Sprintf(`{"go":"e%d"}`, i)})
		case 5:
			out = append(out, req{"search", "", fmt.Sprintf(`{"k":"v%d","owner":"?o"}`, r.Intn(3))})
		case 6:
			out = append(out, req{"remFact", id, ""})
		case 7:
			out = append(out, req{"getFact", id, ""})
		case 8:
			out = append(out, req{"listRules", "", ""})
		default:
			out = append(out, req{"query", "", `{"and":[{"pattern":{"owner":"?o","k":"?k"}},{"code":"k != 'v0'"}]}`})
		}
	}
	return out
}

func finalState(e engine, loc string) []string {
	var out []string
	for _, id := range []string{"a", "b", "c", "ra", "rb", "rc"} {
		out = append(out, id+"="+e.do(loc, req{Op: "getFact", Id: id}))
	}
	out = append(out, "rules="+e.do(loc, req{Op: "listRules"}))
	return out
}

// pendingLimit: the HTTP service behind its own listener with a limit on pending requests
// (HTTPService.SetMaxPending, rulesys -max-pending).  Six clients, each owning one location, send
// slow events and fact additions on fresh connections, so that the limit is reached while the
// accept loop runs.  A refused request is an error for its client, nothing more: the process
// lives, every client finishes, and each location ends with exactly the facts whose addition
// was acknowledged.
func pendingLimit(r *rep.Report, linear bool) {
	se := newSysEngine(linear)
	h, err := service.NewHTTPService(drv.Ctx(), &service.Service{System: se.s})
	if err != nil {
		r.Violate("", "cannot build the HTTP service: "+err.Error(), nil)
		return
	}
	h.SetMaxPending(2)
	l, err := service.NewListener(drv.Ctx(), h, "127.0.0.1:0", false)
	if err != nil {
		r.Violate("", "cannot listen: "+err.Error(), nil)
		return
	}
	srv := &http.Server{Handler: h}
	go srv.Serve(l)
	defer srv.Close()
	base := "http://" + l.Addr().String()
	post := func(cl *http.Client, uri string, m map[string]interface{}) (int, string) {
		body, _ := json.Marshal(m)
		resp, err := cl.Post(base+uri, "application/json", bytes.NewReader(body))
		if err != nil {
			return 0, err.Error()
		}
		defer resp.Body.Close()
		b, _ := ioutil.ReadAll(resp.Body)
		return resp.StatusCode, strings.TrimSpace(string(b))
	}
	// requests that are turned down before they reach any location (a body that is not JSON, a uri that
	// is not a string) are over once they are answered: they do not count against the limit afterwards
	{
		cl := &http.Client{Timeout: 30 * time.Second, Transport: &http.Transport{DisableKeepAlives: true}}
		var answers []string
		for i, body := range []string{`{"location":"pl0","fact":{"likes":}}`, `{"uri":5,"location":"pl0"}`, `{"location":"pl0","fact":{"likes":}}`, `{"uri":{"a":1},"location":"pl0"}`} {
			resp, err := cl.Post(base+"/api/loc/facts/add", "application/json", strings.NewReader(body))
			if err != nil {
				answers = append(answers, fmt.Sprintf("%d: transport error %v", i, err))
				continue
			}
			ioutil.ReadAll(resp.Body)
			resp.Body.Close()
			answers = append(answers, fmt.Sprintf("%d: %d", i, resp.StatusCode))
		}
		time.Sleep(50 * time.Millisecond)
		st, body := post(cl, "/api/loc/facts/add", map[string]interface{}{"location": "pl0", "id": "after-rejects", "fact": map[string]interface{}{"n": 0.0}})
		r.Case(true, fmt.Sprint("pending-limit-rejects", linear))
		if h.Pending() != 0 || st != 200 {
			r.Violate("", "requests that were turned down with 400 still count as pending: the limit fills up with nothing pending", rep.J{"linear": linear, "max_pending": 2, "answers_of_the_rejected_requests": answers, "pending_afterwards": h.Pending(), "next_good_request": fmt.Sprintf("%d %s", st, body)})
			return
		}
	}
	const clients = 6
	type outcome struct {
		acked   map[string]bool
		refused int
		other   []string
	}
	outs := make([]outcome, clients)
	var wg sync.WaitGroup
	gate := make(chan struct{})
	for c := 0; c < clients; c++ {
		wg.Add(1)
		go func(c int) {
			defer wg.Done()
			cl := &http.Client{Timeout: 30 * time.Second, Transport: &http.Transport{DisableKeepAlives: true}}
			loc := fmt.Sprintf("pl%d", c)
			outs[c].acked = map[string]bool{}
			<-gate
			// every request is tried until it is answered by the service itself (at most 200 times)
			try := func(uri string, m map[string]interface{}) (int, string) {
				for i := 0; i < 200; i++ {
					st, body := post(cl, uri, m)
					if st == 200 || st == 400 {
						return st, body
					}
					outs[c].refused++ // 429, or the connection was closed on us
					time.Sleep(5 * time.Millisecond)
				}
				return -1, "never answered"
			}
			if st, body := try("/api/loc/rules/add", map[string]interface{}{"location": loc, "id": "slow", "rule": map[string]interface{}{"when": map[string]interface{}{"pattern": map[string]interface{}{"go": "slow"}}, "action": map[string]interface{}{"code": "Env.sleep(60e6); 'slept'"}}}); st != 200 {
				outs[c].other = append(outs[c].other, fmt.Sprintf("rules/add: %d %s", st, body))
				return
			}
			for i := 0; i < 6; i++ {
				if st, body := try("/api/loc/events/ingest", map[string]interface{}{"location": loc, "event": map[string]interface{}{"go": "slow"}}); st != 200 || !strings.Contains(body, "slept") {
					outs[c].other = append(outs[c].other, fmt.Sprintf("events/ingest: %d %s", st, body))
				}
				id := fmt.Sprintf("f%d", i)
				st, body := post(cl, "/api/loc/facts/add", map[string]interface{}{"location": loc, "id": id, "fact": map[string]interface{}{"n": float64(i)}})
				switch st {
				case 200:
					outs[c].acked[id] = true
				case 400:
					outs[c].other = append(outs[c].other, fmt.Sprintf("facts/add: %d %s", st, body))
				default:
					outs[c].refused++
				}
			}
		}(c)
	}
	done := make(chan struct{})
	go func() { close(gate); wg.Wait(); close(done) }()
	select {
	case <-done:
	case <-time.After(150 * time.Second):
		r.Violate("", "clients of a service with a pending limit did not finish within 150 s", rep.J{"linear": linear})
		return
	}
	refusals := 0
	for c := 0; c < clients; c++ {
		loc := fmt.Sprintf("pl%d", c)
		r.Case(true, fmt.Sprint("pending-limit", linear, c))
		refusals += outs[c].refused
		wit := rep.J{"linear": linear, "location": loc, "max_pending": 2, "acknowledged_adds": outs[c].acked, "refused_attempts": outs[c].refused, "other_answers": outs[c].other}
		if len(outs[c].other) > 0 {
			r.Violate("", "under a pending limit a request was answered wrongly (neither its result nor a refusal)", wit)
			continue
		}
		for i := 0; i < 6; i++ {
			id := fmt.Sprintf("f%d", i)
			_, gerr := se.s.GetFact(drv.Ctx(), loc, id)
			if have := gerr == nil; have != outs[c].acked[id] {
				wit["id"], wit["stored"] = id, have
				r.Violate("", "under a pending limit a location does not hold exactly the facts whose addition was acknowledged", wit)
				break
			}
		}
	}
	r.Count("pending_limit_refusals_observed", refusals)
	if refusals == 0 {
		r.Inconclusive("the pending limit was never reached: no refusal observed")
	}
}

// boltGrowth: an engine on Bolt storage whose locations are loaded for every request (TTL never),
// eight clients on eight locations writing facts large enough that the database file grows (and
// is mapped again) many times while other locations load.  Nobody waits for ever.
func boltGrowth(r *rep.Report, e rep.Env) {
	for _, linear := range []bool{false, true} {
		path := fmt.Sprintf("%s/c11-growth-%v.db", e.Out, linear)
		os.Remove(path)
		conf := sys.ExampleConfig()
		conf.Storage = "bolt"
		conf.StorageConfig = path
		conf.UnindexedState = linear
		cont := sys.ExampleSystemControl()
		cont.LocationTTL = sys.Never
		cont.DefaultLocControl = &core.Control{MaxFacts: 100000, Verbosity: core.NOTHING, NoTiming: true}
		s, err := sys.NewSystem(drv.Ctx(), *conf, *cont, cronner.New(true))
		if err != nil {
			r.Violate("", "cannot build a bolt-backed system: "+err.Error(), nil)
			continue
		}
		const clients, per = 8, 30
		big := strings.Repeat("x", 24000)
		acked := make([]int, clients)
		bad := make([]string, clients)
		var wg sync.WaitGroup
		gate := make(chan struct{})
		for c := 0; c < clients; c++ {
			wg.Add(1)
			go func(c int) {
				defer wg.Done()
				loc := fmt.Sprintf("g%d", c)
				<-gate
				for i := 0; i < per; i++ {
					if _, err := s.AddFact(drv.Ctx(), loc, fmt.Sprintf("f%d", i), fmt.Sprintf(`{"n":%d,"pad":%q}`, i, big)); err != nil {
						bad[c] = "AddFact: " + err.Error()
						return
					}
					acked[c]++
					if _, err := s.GetFact(drv.Ctx(), loc, fmt.Sprintf("f%d", i)); err != nil {
						bad[c] = "GetFact of an acknowledged fact: " + err.Error()
						return
					}
				}
			}(c)
		}
		done := make(chan struct{})
		go func() { close(gate); wg.Wait(); close(done) }()
		select {
		case <-done:
		case <-time.After(120 * time.Second):
			r.Violate("", "clients of different locations on Bolt storage did not finish within 120 s while the database file grew (deadlock?)", rep.J{"linear": linear, "acknowledged_per_client": acked})
			return
		}
		for c := 0; c < clients; c++ {
			r.Case(true, fmt.Sprint("bolt-growth", linear, c))
			n, _ := s.GetSize(drv.Ctx(), fmt.Sprintf("g%d", c))
			if bad[c] != "" || n != per {
				r.Violate("", "a client of its own location on Bolt storage got a wrong answer while other locations wrote", rep.J{"linear": linear, "client": c, "problem": bad[c], "size": n, "want_size": per})
			}
		}
		r.Count("bolt_growth_requests", clients*per*2)
		s.Close(drv.Ctx())
		os.Remove(path)
	}
}

func main() {
	e := rep.GetEnv()
	r := rep.New(e)
	if e.Stage == "bolt" {
		boltGrowth(r, e)
		r.Write()
		os.Exit(0)
	}
	if e.Batch == 0 {
		r.Journal(rep.J{"scenario": "pending-limit"})
		pendingLimit(r, false)
		pendingLimit(r, true)
	}
	rounds := e.Pick(12, 60)
	rng := rand.New(rand.NewSource(e.BatchSeed()))
	r.Note("hooks_compiled_in", hook.Enabled())
	for round := 0; round < rounds; round++ {
		n := 8 + rng.Intn(9)
		linear := round%2 == 1
		viaHTTP := round%4 >= 2
		seqs := make([][]req, n)
		for c := range seqs {
			seqs[c] = genSeq(rng, fmt.Sprintf("loc%d", c), 12+rng.Intn(10))
		}
		timing = round%5 == 4
		core.SystemParameters.MaxTimers = 1024
		if timing {
			core.SystemParameters.MaxTimers = 5
		}
		codeProps = nil
		if round%2 == 1 || round%4 == 2 {
			codeProps = map[string]interface{}{"site": "lab"}
		}
		r.Journal(rep.J{"round": round, "clients": n, "linear": linear, "http": viaHTTP, "code_props": codeProps != nil})
		mk := func() engine {
			if viaHTTP {
				return newHTTPEngine(linear)
			}
			return newSysEngine(linear)
		}
		// concurrent run on a fresh engine
		if round%3 != 2 {
			hook.Delays(e.BatchSeed()+int64(round), 0.5, 2*time.Millisecond, "sys.storage.gap", "sys.open.gap")
		} else {
			hook.Off()
		}
		eng := mk()
		results := make([][]string, n)
		spans := make([][2]int64, n)
		start := time.Now()
		var wg sync.WaitGroup
		gate := make(chan struct{})
		for c := 0; c < n; c++ {
			wg.Add(1)
			go func(c int) {
				defer wg.Done()
				<-gate
				spans[c][0] = time.Since(start).Nanoseconds()
				for _, q := range seqs[c] {
					results[c] = append(results[c], eng.do(fmt.Sprintf("loc%d", c), q))
				}
				spans[c][1] = time.Since(start).Nanoseconds()
			}(c)
		}
		done := make(chan struct{})
		go func() { close(gate); wg.Wait(); close(done) }()
		select {
		case <-done:
		case <-time.After(180 * time.Second):
			r.Violate("", "concurrent clients on different locations did not finish within 180 s (deadlock?)", rep.J{"round": round, "clients": n})
			r.Write()
			os.Exit(0)
		}
		hook.Off()
		finals := make([][]string, n)
		for c := 0; c < n; c++ {
			finals[c] = finalState(eng, fmt.Sprintf("loc%d", c))
		}
		eng.close()
		overl := 0
		for a := 0; a < n; a++ {
			for b := a + 1; b < n; b++ {
				if spans[a][0] < spans[b][1] && spans[b][0] < spans[a][1] {
					overl++
				}
			}
		}
		// sequential twin on another fresh engine
		twin := mk()
		for c := 0; c < n; c++ {
			loc := fmt.Sprintf("loc%d", c)
			var want []string
			for _, q := range seqs[c] {
				want = append(want, twin.do(loc, q))
			}
			wantFinal := finalState(twin, loc)
			r.Case(overl > 0, fmt.Sprint(e.BatchSeed(), round, c))
			r.Count("requests_compared", len(want))
			for i := range want {
				if want[i] != results[c][i] {
					r.Violate("", "a request returned something else than it does when the location's requests run alone", rep.J{"round": round, "clients": n, "linear": linear, "http": viaHTTP,
						"location": loc, "request_index": i, "request": seqs[c][i], "concurrent": results[c][i], "alone": want[i], "sequence": seqs[c]})
					break
				}
			}
			if !ref.SameSet(wantFinal, finals[c]) {
				r.Violate("", "the final state of a location differs from the sequential run", rep.J{"round": round, "location": loc, "concurrent": finals[c], "alone": wantFinal, "sequence": seqs[c]})
			}
			if c == 0 && r.WantSample() {
				r.Sample(rep.J{"round": round, "clients": n, "linear": linear, "http": viaHTTP, "overlapping_client_pairs": overl, "location": loc, "requests": seqs[c][:4], "results": results[c][:4]})
			}
		}
		twin.close()
		r.Count("overlapping_client_pairs", overl)
	}
	r.Note("hook_hits", hook.Hits())
	r.Write()
	fmt.Fprintf(os.Stderr, "c11 batch %d: %d evaluations\n", e.Batch, r.Evaluations)
	os.Exit(0)
}
