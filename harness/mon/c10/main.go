// Monitor for C10: only live, enabled rules fire.  Generated walks through the
// per-id lifecycle machine (add / overwrite / remove / overwrite-by-fact /
// disable / enable / reload / location disable+enable), an event per rule id
// after every step; each rule's action returns its version tag, so the values
// of ProcessEvent say which version ran.
package main

import (
	"fmt"
	"os"
	"sort"
	"strings"

	"github.com/Comcast/rulio/core"

	"verif/lib/drv"
	"verif/lib/gen"
	"verif/lib/ref"
	"verif/lib/rep"
	vstore "verif/lib/store"
)

type op struct {
	Op  string `json:"op"`
	Loc string `json:"loc,omitempty"`
	Id  string `json:"id,omitempty"`
	Ver string `json:"ver,omitempty"`
}

type mrule struct {
	present bool
	ver     string
	sched   bool // a scheduled rule: runs for {"trigger!":id}, never for ordinary events
	on      string // the event id its `when` matches ("" = its own id)
}

type world struct {
	kind          string
	stores        map[string]*core.MemStorage
	locs          map[string]*core.Location
	prov          *core.SimpleLocationProvider
	rules         map[string]map[string]*mrule // loc -> id -> rule
	flags         map[string]map[string]bool   // loc -> id -> disabled
	locOff        map[string]bool
	run           []op
	withParent    bool
	ver           int
	deps          map[string]bool // loc/id of rules carrying deleteWith:["dep"]
}

func (w *world) open(name string) error {
	l, err := drv.NewLoc(name, w.kind, w.stores[name])
	if err != nil {
		return err
	}
	l.Provider = w.prov
	w.locs[name] = l
	w.prov.Registry[name] = l
	return nil
}

func newWorld(kind string, withParent bool) (*world, error) {
	w := &world{kind: kind, stores: map[string]*core.MemStorage{}, locs: map[string]*core.Location{}, withParent: withParent,
		deps: map[string]bool{}, rules: map[string]map[string]*mrule{"child": {}, "parent": {}}, flags: map[string]map[string]bool{"child": {}, "parent": {}}, locOff: map[string]bool{}}
	w.prov = core.NewSimpleLocationProvider(map[string]*core.Location{})
	names := []string{"child"}
	if withParent {
		names = append(names, "parent")
	}
	for _, n := range names {
		w.stores[n] = drv.MustMem()
		if err := w.open(n); err != nil {
			return nil, err
		}
	}
	if withParent {
		if _, err := w.locs["child"].SetParents(drv.Ctx(), []string{"parent"}); err != nil {
			return nil, err
		}
	}
	return w, nil
}

func schedRuleMap(id, ver string) core.Map {
	return core.Map{"schedule": "0 0 1 1 *", "action": map[string]interface{}{"code": fmt.Sprintf("%q", ver)}}
}

func ruleMap(id, ver string) core.Map {
	return core.Map{"when": map[string]interface{}{"pattern": map[string]interface{}{"e": id}},
		"action": map[string]interface{}{"code": fmt.Sprintf("%q", ver)}}
}

const disabledMsg = "Location is disabled"

// apply executes the step; returns an error text for the violation, if any.
func (w *world) apply(r *rep.Report, o op) {
	w.run = append(w.run, o)
	r.Journal(rep.J{"kind": w.kind, "op": o})
	loc := w.locs[o.Loc]
	ctx := drv.Ctx()
	off := w.locOff[o.Loc]
	wit := func() rep.J { return rep.J{"state": w.kind, "with_parent": w.withParent, "history": w.run} }
	check := func(err error) bool {
		if off {
			if err == nil || !strings.Contains(err.Error(), disabledMsg) {
				r.Violate("", fmt.Sprintf("operation %s in a disabled location did not report that the location is disabled (got %v)", o.Op, err), wit())
			}
			return false
		}
		if err != nil {
			r.Violate("", "operation "+o.Op+" failed: "+err.Error(), wit())
			return false
		}
		return true
	}
	switch o.Op {
	case "add":
		_, err := loc.AddRule(ctx, o.Id, ruleMap(o.Id, o.Ver))
		if check(err) {
			w.rules[o.Loc][o.Id] = &mrule{true, o.Ver, false, ""}
			delete(w.deps, o.Loc+"/"+o.Id)
		}
	case "addAlt":
		// the id is (re-)added with the `when` of the OTHER id: what it listened to before is gone entirely
		other := "r1"
		if o.Id == "r1" {
			other = "r2"
		}
		_, err := loc.AddRule(ctx, o.Id, ruleMap(other, o.Ver))
		if check(err) {
			w.rules[o.Loc][o.Id] = &mrule{true, o.Ver, false, other}
			delete(w.deps, o.Loc+"/"+o.Id)
		}
	case "addSched":
		_, err := loc.AddRule(ctx, o.Id, schedRuleMap(o.Id, o.Ver))
		if check(err) {
			w.rules[o.Loc][o.Id] = &mrule{true, o.Ver, true, ""}
			delete(w.deps, o.Loc+"/"+o.Id)
		}
	case "addDep":
		// a rule that is deleted with the fact "dep"
		rm := ruleMap(o.Id, o.Ver)
		rm["deleteWith"] = []interface{}{"dep"}
		_, err := loc.AddRule(ctx, o.Id, rm)
		if check(err) {
			w.rules[o.Loc][o.Id] = &mrule{true, o.Ver, false, ""}
			w.deps[o.Loc+"/"+o.Id] = true
		}
	case "depTarget":
		_, err := loc.AddFact(ctx, "dep", core.Map{"is": "target"})
		check(err)
	case "remDepTarget":
		_, err := loc.RemFact(ctx, "dep")
		if check(err) {
			for k := range w.deps {
				if strings.HasPrefix(k, o.Loc+"/") {
					id := strings.TrimPrefix(k, o.Loc+"/")
					delete(w.rules[o.Loc], id)
					delete(w.flags[o.Loc], id)
					delete(w.deps, k)
				}
			}
		}
	case "rem":
		_, err := loc.RemRule(ctx, o.Id)
		if check(err) {
			delete(w.rules[o.Loc], o.Id)
			delete(w.flags[o.Loc], o.Id)
			delete(w.deps, o.Loc+"/"+o.Id)
		}
	case "remFact":
		_, err := loc.RemFact(ctx, o.Id)
		if check(err) {
			delete(w.rules[o.Loc], o.Id)
			delete(w.flags[o.Loc], o.Id) // the flag is a dependent of the id
			delete(w.deps, o.Loc+"/"+o.Id)
		}
	case "overFact":
		_, err := loc.AddFact(ctx, o.Id, core.Map{"plain": o.Id})
		if check(err) {
			delete(w.rules[o.Loc], o.Id)
			delete(w.deps, o.Loc+"/"+o.Id)
		}
	case "disable":
		err := loc.EnableRule(ctx, o.Id, false)
		if check(err) {
			w.flags[o.Loc][o.Id] = true
		}
	case "enable":
		err := loc.EnableRule(ctx, o.Id, true)
		if check(err) {
			delete(w.flags[o.Loc], o.Id)
		}
	case "reload":
		if err := w.open(o.Loc); err != nil {
			r.Violate("", "reload failed: "+err.Error(), wit())
		}
	case "locOff":
		if err := loc.SetProp(ctx, "", "enabled", "false"); err != nil {
			r.Violate("", "cannot disable location: "+err.Error(), wit())
		} else {
			w.locOff[o.Loc] = true
		}
	case "locOn":
		if err := loc.SetProp(ctx, "", "enabled", "true"); err != nil {
			r.Violate("", "cannot enable location: "+err.Error(), wit())
		} else {
			delete(w.locOff, o.Loc)
		}
	case "probeOps":
		// in a disabled location every operation must report it
		if off {
			errs := map[string]error{}
			_, errs["AddFact"] = loc.AddFact(ctx, "zz", core.Map{"a": 1.0})
			_, errs["RemFact"] = loc.RemFact(ctx, "zz")
			_, errs["GetFact"] = loc.GetFact(ctx, "zz")
			_, errs["SearchFacts"] = loc.SearchFacts(ctx, core.Map{"a": "?x"}, false)
			_, errs["SearchFactsInherited"] = loc.SearchFacts(ctx, core.Map{"a": "?x"}, true)
			_, errs["AddRule"] = loc.AddRule(ctx, "zr", ruleMap("zr", "zz"))
			_, errs["RemRule"] = loc.RemRule(ctx, "zr")
			_, errs["GetRule"] = loc.GetRule(ctx, "zr")
			errs["EnableRule"] = loc.EnableRule(ctx, "zr", false)
			_, errs["RuleEnabled"] = loc.RuleEnabled(ctx, "zr")
			_, errs["SearchRules"] = loc.SearchRules(ctx, core.Map{"e": "r1"}, false)
			_, errs["ListRules"] = loc.ListRules(ctx, false)
			_, errs["Query"] = loc.Query(ctx, `{"pattern":{"a":"?x"}}`)
			_, errs["SetParents"] = loc.SetParents(ctx, []string{})
			_, errs["GetParents"] = loc.GetParents(ctx)
			errs["Clear"] = loc.Clear(ctx)
			_, errs["RunJavascript"] = loc.RunJavascript(ctx, "1+1", nil, nil, nil)
			// events that carry their own rule, or name a rule, fire nothing either
			for name, ev := range map[string]core.Map{
				"ProcessEvent(evaluate!)": {"evaluate!": map[string]interface{}{"when": map[string]interface{}{"pattern": map[string]interface{}{"e": "?any"}}, "action": map[string]interface{}{"code": "'embedded ran'"}}, "e": "x"},
				"ProcessEvent(trigger!)":  {"trigger!": "r1", "e": "r1"},
			} {
				fr, cond := loc.ProcessEvent(drv.Ctx(), ev)
				if fr != nil && len(fr.Values) > 0 {
					r.Violate("", name+": a rule fired in a disabled location", wit())
				}
				if cond != nil {
					errs[name] = fmt.Errorf("%s", cond.Msg)
				} else {
					errs[name] = nil
				}
			}
			for name, err := range errs {
				r.Count("disabled_location_ops_checked", 1)
				if err == nil || !strings.Contains(err.Error(), disabledMsg) {
					r.Violate("", fmt.Sprintf("%s in a disabled location did not report that the location is disabled (got %v)", name, err), wit())
				}
			}
		}
	}
}

// expectFire: which version tags an event {"e":id} sent to location `at` must produce.
// expectTrigger: which version a {"trigger!":id} event sent to `at` must run (own scheduled rules only).
func (w *world) expectTrigger(at, id string) []string {
	out := []string{}
	if w.locOff[at] {
		return nil
	}
	if ru, ok := w.rules[at][id]; ok && ru.present && ru.sched && !w.flags[at][id] {
		out = append(out, ru.ver)
	}
	return out
}

func (w *world) expectFire(at, id string) []string {
	out := []string{}
	if w.locOff[at] {
		return nil
	}
	srcs := []string{at}
	if at == "child" && w.withParent {
		if w.locOff["parent"] {
			return nil // inherited search fails as a whole
		}
		srcs = append(srcs, "parent")
	}
	for _, s := range srcs {
		for rid, ru := range w.rules[s] {
			on := ru.on
			if on == "" {
				on = rid
			}
			if on == id && ru.present && !ru.sched && !w.flags[at][rid] {
				out = append(out, ru.ver)
			}
		}
	}
	sort.Strings(out)
	return out
}

func (w *world) observe(r *rep.Report, changed bool) {
	ids := []string{"r1", "r2"}
	for at, loc := range w.locs {
		for _, id := range ids {
			want := w.expectFire(at, id)
			dup := at == "child" && w.withParent && w.rules["child"][id] != nil && w.rules["parent"][id] != nil
			fr, cond := loc.ProcessEvent(drv.Ctx(), core.Map{"e": id})
			r.Case(changed, w.kind+at+id+ref.Canon(w.run))
			wit := func() rep.J {
				return rep.J{"state": w.kind, "with_parent": w.withParent, "history": w.run, "event_to": at, "event": map[string]string{"e": id}, "want_values": want, "got_values": fr.Values, "condition": cond}
			}
			if w.locOff[at] || (at == "child" && w.withParent && w.locOff["parent"]) {
				if cond == nil || !strings.Contains(cond.Msg, disabledMsg) {
					r.Violate("", "an event processed in (or inheriting from) a disabled location did not report that the location is disabled", wit())
				}
				if len(fr.Values) > 0 {
					r.Violate("", "a rule fired in a disabled location", wit())
				}
				continue
			}
			if dup {
				// documented: the same id in child and parent is an error
				if cond == nil || !strings.Contains(cond.Msg, "duplicate id") {
					r.Violate("", "duplicate rule id across child and parent did not produce the documented error", wit())
				}
				continue
			}
			if cond != nil {
				r.Violate("", "ProcessEvent failed: "+cond.Msg, wit())
				continue
			}
			got := []string{}
			for _, v := range fr.Values {
				got = append(got, fmt.Sprint(v))
			}
			sort.Strings(got)
			if !ref.SameSet(got, want) {
				what := "the values of ProcessEvent do not match the lifecycle model:"
				if len(got) > len(want) {
					what += " a removed, replaced or disabled rule fired"
				} else if len(got) < len(want) {
					what += " a live, enabled rule did not fire"
				} else {
					what += " a stale version fired"
				}
				r.Violate("", what, wit())
				continue
			}
			// RuleEnabled agrees with the flag
			en, err := loc.RuleEnabled(drv.Ctx(), id)
			if err != nil || en == w.flags[at][id] {
				r.Violate("", fmt.Sprintf("RuleEnabled(%s) = %v, %v but the model's flag is disabled=%v", id, en, err, w.flags[at][id]), wit())
			}
			if changed && len(want) > 0 && r.WantSample() {
				r.Sample(rep.J{"state": w.kind, "history": w.run, "event_to": at, "event": map[string]string{"e": id}, "values": got})
			}
		}
		// the cron tick path: {"trigger!":id} runs the scheduled rule of that id iff it is live and enabled
		if !w.locOff[at] {
			for _, id := range ids {
				want := w.expectTrigger(at, id)
				fr, _ := loc.ProcessEvent(drv.Ctx(), core.Map{"trigger!": id})
				got := []string{}
				for _, v := range fr.Values {
					got = append(got, fmt.Sprint(v))
				}
				r.Count("trigger_events", 1)
				if !ref.SameSet(got, want) {
					r.Violate("", "a {\"trigger!\":id} event (the cron tick path) did not run exactly the live, enabled scheduled rule", rep.J{"state": w.kind, "with_parent": w.withParent, "history": w.run, "event_to": at, "id": id, "want_values": want, "got_values": got})
				}
			}
		}
		// ListRules = own present rules
		if !w.locOff[at] {
			lr, _ := loc.ListRules(drv.Ctx(), false)
			sort.Strings(lr)
			want := []string{}
			for id, ru := range w.rules[at] {
				if ru.present {
					want = append(want, id)
				}
			}
			sort.Strings(want)
			if !ref.SameSet(lr, want) {
				r.Violate("", "ListRules differs from the model", rep.J{"state": w.kind, "history": w.run, "at": at, "got": lr, "want": want})
			}
		}
	}
}

// faultyRemoval: a rule is disabled and its removal fails half-way (the k-th storage call of
// RemRule reports a failure).  Whatever is left, a rule that was disabled and never enabled
// again does not fire, neither in the live location nor after a reload; a removal that is
// retried and succeeds leaves neither rule nor flag.
func faultyRemoval(r *rep.Report) {
	for _, kind := range drv.Kinds {
		for _, sched := range []bool{false, true} {
			for k := 1; k <= 4; k++ {
				inner := drv.MustMem()
				w := vstore.New(inner)
				loc, err := drv.NewLoc("F", kind, w)
				if err != nil {
					r.Violate("", "cannot build location", nil)
					return
				}
				ctx := drv.Ctx()
				rm := ruleMap("r1", "v1")
				ev := core.Map{"e": "r1"}
				if sched {
					rm = schedRuleMap("r1", "v1")
					ev = core.Map{"trigger!": "r1"}
				}
				loc.AddRule(ctx, "r1", rm)
				loc.EnableRule(ctx, "r1", false)
				w.FailAt = w.NCalls() + k
				_, rerr := loc.RemRule(ctx, "r1")
				w.FailAt = 0
				fires := func(l *core.Location) string {
					fr, _ := l.ProcessEvent(drv.Ctx(), core.Map(ref.CloneMap(ev)))
					if fr == nil {
						return ""
					}
					return fmt.Sprint(fr.Values)
				}
				live := fires(loc)
				loc2, lerr := drv.NewLoc("F", kind, vstore.MemFrom(vstore.CopyState(inner.State(drv.Ctx()))))
				reloaded := ""
				if lerr == nil {
					reloaded = fires(loc2)
				}
				r.Case(true, fmt.Sprint("faulty-removal", kind, sched, k))
				r.Count("faulty_removals", 1)
				wit := rep.J{"state": kind, "scheduled_rule": sched, "failing_storage_call_of_RemRule": k, "RemRule_error": drv.ErrStr(rerr), "values_live": live, "values_reloaded": reloaded}
				if live != "[]" && live != "" || reloaded != "[]" && reloaded != "" {
					r.Violate("", "a disabled rule fired after its removal failed half-way (the disabled flag went before the rule)", wit)
					continue
				}
				if rerr != nil {
					// the retry goes through
					if _, err := loc.RemRule(drv.Ctx(), "r1"); err != nil && !strings.Contains(err.Error(), "not found") {
						wit["retry_error"] = err.Error()
						r.Violate("", "retrying the failed removal fails: "+err.Error(), wit)
						continue
					}
					if _, err := loc.GetRule(drv.Ctx(), "r1"); err == nil {
						r.Violate("", "the rule is still there after the retried removal", wit)
					}
					if en, _ := loc.RuleEnabled(drv.Ctx(), "r1"); !en {
						// the flag outlived the rule: a rule re-added under the id would be born disabled
						if _, gerr := loc.GetFact(drv.Ctx(), "!r1.disabled"); gerr == nil {
							r.Violate("", "the disabled flag outlived the rule after the retried removal", wit)
						}
					}
				}
			}
		}
	}
}

func main() {
	e := rep.GetEnv()
	r := rep.New(e)
	if e.Batch == 0 {
		faultyRemoval(r)
	}
	nWalks := e.Pick(200, 1500)
	for wi := 0; wi < nWalks; wi++ {
		g := gen.New(e.BatchSeed()*49979687 + int64(wi))
		withParent := wi%3 == 2
		steps := 10 + g.Intn(16)
		var walk []op
		ver := 0
		for s := 0; s < steps; s++ {
			o := op{Loc: "child", Id: g.Pick([]string{"r1", "r2"})}
			if withParent && g.Intn(2) == 0 {
				o.Loc = "parent"
			}
			switch k := g.Intn(26); {
			case k < 6:
				ver++
				o.Op, o.Ver = "add", fmt.Sprintf("v%d", ver)
				if withParent {
					// keep ids disjoint between child and parent most of the time
					if g.Intn(8) > 0 {
						if o.Id == "r1" {
							o.Loc = "parent"
						} else {
							o.Loc = "child"
						}
					}
				}
			case k == 6 && !withParent:
				ver++
				o.Op, o.Ver = "addAlt", fmt.Sprintf("v%d", ver)
			case k == 7 && !withParent:
				ver++
				o.Op, o.Ver = "addSched", fmt.Sprintf("v%d", ver)
			case k == 8:
				ver++
				o.Op, o.Ver = []string{"addDep", "addDep", "depTarget", "remDepTarget"}[g.Intn(4)], fmt.Sprintf("v%d", ver)
			case k < 10:
				o.Op = "rem"
			case k < 11:
				o.Op = "remFact"
			case k < 12:
				o.Op = "overFact"
			case k < 16:
				o.Op = "disable"
				if withParent && g.Intn(2) == 0 {
					o.Loc = "child"
				}
			case k < 20:
				o.Op = "enable"
				if withParent && g.Intn(2) == 0 {
					o.Loc = "child"
				}
			case k < 23:
				o.Op = "reload"
			case k < 24:
				o.Op = "locOff"
			case k < 25:
				o.Op = "locOn"
			default:
				o.Op = "probeOps"
			}
			walk = append(walk, o)
			if o.Op == "locOff" {
				walk = append(walk, op{Op: "probeOps", Loc: o.Loc}, op{Op: "add", Loc: o.Loc, Id: o.Id, Ver: "never"}, op{Op: "locOn", Loc: o.Loc})
			}
		}
		for _, kind := range drv.Kinds {
			w, err := newWorld(kind, withParent)
			if err != nil {
				r.Violate("", "cannot build world: "+err.Error(), nil)
				continue
			}
			for _, o := range walk {
				before := fmt.Sprint(w.expectFire("child", "r1"), w.expectFire("child", "r2"), w.expectFire("parent", "r1"), w.expectFire("parent", "r2"))
				w.apply(r, o)
				after := fmt.Sprint(w.expectFire("child", "r1"), w.expectFire("child", "r2"), w.expectFire("parent", "r1"), w.expectFire("parent", "r2"))
				w.observe(r, before != after)
			}
		}
	}
	r.Write()
	fmt.Fprintf(os.Stderr, "c10 batch %d: %d evaluations\n", e.Batch, r.Evaluations)
}
