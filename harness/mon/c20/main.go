// Monitor for C20: configured limits are enforced and recover.
//
//	capacity: add/remove histories around MaxFacts; size <= max after every
//	          acknowledged add, a refused add leaves state and storage unchanged;
//	breaker:  timestamped admission log checked offline: sliding-window rate
//	          bound and recovery, both judged on [before, after] intervals;
//	throttle: each submitted function runs at most once, Pending() <= limit+1,
//	          pending returns to 0.
package main

import (
	"fmt"
	"math/rand"
	"net/http"
	"net/http/httptest"
	"net/url"
	"os"
	"runtime"
	"sort"
	"strconv"
	"strings"
	"sync"
	"sync/atomic"
	"time"

	"github.com/Comcast/rulio/core"
	"github.com/Comcast/rulio/sys"

	"verif/lib/cronner"
	"verif/lib/drv"
	"verif/lib/ref"
	"verif/lib/rep"
)

// ---------- capacity ----------
type capOp struct {
	Op   string `json:"op"`
	Id   string `json:"id"`
	Prop string `json:"prop,omitempty"`
	Err  string `json:"err,omitempty"`
}

func snap(loc *core.Location, st *core.MemStorage) string {
	raw := st.State(drv.Ctx())["C"]
	ks := []string{}
	for k, v := range raw {
		ks = append(ks, k+"="+v)
	}
	sort.Strings(ks)
	live := []string{}
	for _, id := range []string{"a", "b", "c", "d", "e", "f", "g", "h"} {
		if f, err := loc.GetFact(drv.Ctx(), id); err == nil {
			live = append(live, id+"="+ref.Canon(map[string]interface{}(f)))
		}
	}
	return strings.Join(ks, "\n") + "\n--\n" + strings.Join(live, "\n")
}

func capacity(r *rep.Report, rng *rand.Rand, n int) {
	ids := []string{"a", "b", "c", "d", "e", "f", "g", "h"}
	for h := 0; h < n; h++ {
		kind := drv.Kinds[h%2]
		max := 1 + rng.Intn(6)
		st := drv.MustMem()
		loc, err := drv.NewLoc("C", kind, st)
		if err != nil {
			panic(err)
		}
		ctl := core.DefaultControl()
		ctl.MaxFacts = max
		loc.SetControl(ctl)
		var run []capOp
		model := map[string]bool{}
		reached := false
		steps := 8 + rng.Intn(16)
		for s := 0; s < steps; s++ {
			o := capOp{Id: ids[rng.Intn(max+2)]}
			switch rng.Intn(8) {
			case 7:
				// a property-shaped fact, added under the id of (possibly) an existing fact: it is stored
				// under its canonical property id, i.e. as one more record
				o.Op = "addProp"
				o.Prop = fmt.Sprintf("p%d", rng.Intn(3))
			case 0, 1, 2:
				o.Op = "addFact"
			case 3, 4:
				o.Op = "addRule"
			case 5:
				o.Op = "remFact"
			default:
				o.Op = "remRule"
			}
			r.Journal(rep.J{"capacity": h, "max": max, "state": kind, "op": o})
			before := snap(loc, st)
			var err error
			switch o.Op {
			case "addFact":
				_, err = loc.AddFact(drv.Ctx(), o.Id, core.Map{"v": float64(s)})
			case "addRule":
				_, err = loc.AddRule(drv.Ctx(), o.Id, core.Map{"when": map[string]interface{}{"pattern": map[string]interface{}{"e": o.Id}}, "action": map[string]interface{}{"code": "1"}})
			case "addProp":
				_, err = loc.AddFact(drv.Ctx(), o.Id, core.Map{"!" + o.Prop: float64(s)})
			case "remFact":
				_, err = loc.RemFact(drv.Ctx(), o.Id)
			case "remRule":
				_, err = loc.RemRule(drv.Ctx(), o.Id)
			}
			o.Err = drv.ErrStr(err)
			run = append(run, o)
			size, _ := loc.StateSize(drv.Ctx())
			wit := rep.J{"kind": "capacity", "state": kind, "max": max, "history": run, "size": size}
			switch {
			case strings.HasPrefix(o.Op, "add") && err == nil:
				if o.Op == "addProp" {
					model["!."+o.Prop] = true
				} else {
					model[o.Id] = true
				}
				if size > max {
					r.Violate("", fmt.Sprintf("after an acknowledged add the location holds %d items, maximum is %d", size, max), wit)
				}
			case strings.HasPrefix(o.Op, "add") && err != nil:
				if !strings.Contains(err.Error(), "capacity") {
					r.Violate("", "add failed for another reason than capacity: "+err.Error(), wit)
				} else {
					reached = true
					if len(model) < max {
						r.Violate("", fmt.Sprintf("add refused for capacity although only %d of %d items are held", len(model), max), wit)
					}
					if after := snap(loc, st); after != before {
						r.Violate("", "an add refused for capacity changed state or storage", wit)
					}
				}
			case err == nil:
				delete(model, o.Id)
			}
			if size != len(model) {
				r.Violate("", fmt.Sprintf("StateSize is %d, the model holds %d", size, len(model)), wit)
				break
			}
		}
		r.Case(reached, fmt.Sprint("cap", kind, max, run))
		if reached {
			r.Count("capacity_histories_reaching_limit", 1)
			if r.WantSample() {
				r.Sample(rep.J{"kind": "capacity", "state": kind, "max": max, "history": run})
			}
		}
	}
}

// concurrent adders at the boundary
func capacityConcurrent(r *rep.Report, rng *rand.Rand, n int) {
	for h := 0; h < n; h++ {
		kind := drv.Kinds[h%2]
		max := 2 + rng.Intn(4)
		loc, _ := drv.NewLoc("C", kind, drv.MustMem())
		ctl := core.DefaultControl()
		ctl.MaxFacts = max
		loc.SetControl(ctl)
		var wg sync.WaitGroup
		var acks int64
		gate := make(chan struct{})
		adders := 8 + rng.Intn(8)
		// half of the rounds start one below the maximum, so that all adders meet at the boundary
		if h%2 == 1 {
			for i := 0; i < max-1; i++ {
				loc.AddFact(drv.Ctx(), fmt.Sprintf("pre%d", i), core.Map{"v": "pre"})
			}
		}
		mode := h % 3 // 0: facts only, 1: rules only, 2: mixed
		for c := 0; c < adders; c++ {
			wg.Add(1)
			go func(c int) {
				defer wg.Done()
				<-gate
				for i := 0; i < 3; i++ {
					var err error
					if mode == 1 || (mode == 2 && c%2 == 0) {
						_, err = loc.AddRule(drv.Ctx(), fmt.Sprintf("r%d-%d", c, i), core.Map{"when": map[string]interface{}{"pattern": map[string]interface{}{"e": fmt.Sprint(c)}},
							"condition": map[string]interface{}{"pattern": map[string]interface{}{"v": "?v"}}, "action": map[string]interface{}{"code": "1"}})
					} else {
						_, err = loc.AddFact(drv.Ctx(), fmt.Sprintf("k%d-%d", c, i), core.Map{"v": float64(i)})
					}
					if err == nil {
						atomic.AddInt64(&acks, 1)
					}
				}
			}(c)
		}
		close(gate)
		wg.Wait()
		size, _ := loc.StateSize(drv.Ctx())
		r.Case(true, fmt.Sprint("capconc", h, kind, max))
		r.Count("capacity_concurrent_rounds", 1)
		if size > max {
			r.Violate("", "concurrent adders pushed the location beyond its maximum (capacity check and add are not one step)",
				rep.J{"kind": "capacity-concurrent", "state": kind, "max": max, "size": size, "acknowledged_adds": acks, "adders": adders, "mode": []string{"facts", "rules", "facts and rules"}[mode]})
		}
	}
}

// ---------- breaker ----------
type bcall struct {
	Caller int   `json:"c"`
	Before int64 `json:"before_ns"`
	After  int64 `json:"after_ns"`
	Ok     bool  `json:"admitted"`
}

func breaker(r *rep.Report, rng *rand.Rand, n int) {
	for run := 0; run < n; run++ {
		limit := int64(1 + rng.Intn(20))
		if rng.Intn(2) == 0 {
			limit = int64(1 + rng.Intn(4))
		}
		interval := time.Duration(40+rng.Intn(360)) * time.Millisecond
		tick := interval / 20
		callers := 1 + rng.Intn(16)
		if rng.Intn(3) == 0 {
			callers = 1
		}
		pattern := []string{"burst-then-slow-poll", "burst-then-fast-poll", "steady", "random"}[rng.Intn(4)]
		b, err := core.NewOutboundBreaker(limit, interval)
		if err != nil {
			panic(err)
		}
		r.Journal(rep.J{"breaker": run, "limit": limit, "interval_ms": interval.Milliseconds(), "callers": callers, "pattern": pattern})
		start := time.Now()
		total := 3*interval + 100*time.Millisecond
		var mu sync.Mutex
		var log []bcall
		var wg sync.WaitGroup
		for c := 0; c < callers; c++ {
			wg.Add(1)
			seed := rng.Int63()
			go func(c int, seed int64) {
				defer wg.Done()
				lr := rand.New(rand.NewSource(seed))
				i := 0
				for time.Since(start) < total {
					before := time.Since(start).Nanoseconds()
					ok := b.Zap()
					after := time.Since(start).Nanoseconds()
					mu.Lock()
					log = append(log, bcall{c, before, after, ok})
					mu.Unlock()
					i++
					var pause time.Duration
					switch pattern {
					case "burst-then-slow-poll":
						if int64(i) > limit {
							pause = tick*2 + time.Duration(lr.Int63n(int64(tick)))
						}
					case "burst-then-fast-poll":
						if int64(i) > limit {
							pause = tick / 4
						}
					case "steady":
						pause = interval / time.Duration(limit+1)
					default:
						pause = time.Duration(lr.Int63n(int64(tick * 3)))
					}
					if pause > 0 {
						time.Sleep(pause)
					}
				}
			}(c, seed)
		}
		wg.Wait()
		sort.Slice(log, func(i, j int) bool { return log[i].Before < log[j].Before })
		checkBreaker(r, log, limit, interval, callers, pattern)
	}
}

// httpBreaker: the same admission log, but taken at the place where users meet
// the breaker: core.HTTPRequest.Do against a local endpoint with a breaker
// registered for its host in core.HTTPBreakers.  A request is admitted iff it
// reached the endpoint (status 200); a refused one must answer 430 and must
// not reach the endpoint.
func httpBreaker(r *rep.Report, rng *rand.Rand, n int) {
	for run := 0; run < n; run++ {
		limit := int64(1 + rng.Intn(8))
		interval := time.Duration(150+rng.Intn(250)) * time.Millisecond
		tick := interval / 20
		callers := 1 + rng.Intn(8)
		pattern := []string{"burst-then-slow-poll", "steady", "random"}[rng.Intn(3)]
		var hits int64
		srv := httptest.NewServer(http.HandlerFunc(func(w http.ResponseWriter, req *http.Request) {
			atomic.AddInt64(&hits, 1)
			fmt.Fprintln(w, "ok")
		}))
		u, _ := url.Parse(srv.URL)
		b, err := core.NewOutboundBreaker(limit, interval)
		if err != nil {
			panic(err)
		}
		// by host in even runs, by the full URL in odd runs (both registrations are documented)
		target := srv.URL + "/hook"
		if run%2 == 0 {
			core.HTTPBreakers = map[string]*core.OutboundBreaker{u.Host: b}
		} else {
			core.HTTPBreakers = map[string]*core.OutboundBreaker{target: b}
		}
		r.Journal(rep.J{"http_breaker": run, "limit": limit, "interval_ms": interval.Milliseconds(), "callers": callers, "pattern": pattern})
		start := time.Now()
		total := 2*interval + 100*time.Millisecond
		var mu sync.Mutex
		var log []bcall
		var odd []string
		var wg sync.WaitGroup
		for c := 0; c < callers; c++ {
			wg.Add(1)
			seed := rng.Int63()
			go func(c int, seed int64) {
				defer wg.Done()
				lr := rand.New(rand.NewSource(seed))
				i := 0
				for time.Since(start) < total {
					before := time.Since(start).Nanoseconds()
					res, err := core.HTTPRequest{Method: "GET", URI: target}.Do(drv.Ctx())
					after := time.Since(start).Nanoseconds()
					ok := err == nil && res != nil && res.Status == 200
					mu.Lock()
					log = append(log, bcall{c, before, after, ok})
					if !ok && (res == nil || res.Status != 430 || err != core.Throttled) {
						odd = append(odd, fmt.Sprintf("status=%v err=%v", res, err))
					}
					mu.Unlock()
					i++
					var pause time.Duration
					switch pattern {
					case "burst-then-slow-poll":
						if int64(i) > limit {
							pause = tick*2 + time.Duration(lr.Int63n(int64(tick)))
						}
					case "steady":
						pause = interval / time.Duration(limit+1)
					default:
						pause = time.Duration(lr.Int63n(int64(tick * 3)))
					}
					if pause > 0 {
						time.Sleep(pause)
					}
				}
			}(c, seed)
		}
		wg.Wait()
		srv.Close()
		core.HTTPBreakers = map[string]*core.OutboundBreaker{}
		sort.Slice(log, func(i, j int) bool { return log[i].Before < log[j].Before })
		admitted := 0
		for _, c := range log {
			if c.Ok {
				admitted++
			}
		}
		wit := rep.J{"kind": "http-breaker", "limit": limit, "interval_ms": interval.Milliseconds(), "callers": callers, "pattern": pattern, "requests": len(log), "answered_200": admitted, "reached_the_endpoint": atomic.LoadInt64(&hits), "registered_by": []string{"host", "url"}[run%2]}
		r.Count("http_requests_logged", len(log))
		if len(odd) > 0 {
			wit["odd"] = odd[:1]
			r.Violate("", "a request through a breaker-guarded HTTPRequest.Do ended neither with status 200 nor as throttled (430)", wit)
		}
		if int(atomic.LoadInt64(&hits)) != admitted {
			r.Violate("", "the number of requests that reached the endpoint differs from the number answered 200 (a throttled request was sent, or an admitted one was not)", wit)
		}
		checkBreaker(r, log, limit, interval, callers, "http-"+pattern)
	}
}

func checkBreaker(r *rep.Report, log []bcall, limit int64, interval time.Duration, callers int, pattern string) {
	tick := interval.Nanoseconds() / 20
	var adm []bcall
	for _, c := range log {
		if c.Ok {
			adm = append(adm, c)
		}
	}
	reached := false
	for _, c := range log {
		if !c.Ok {
			reached = true
		}
	}
	r.Case(reached, fmt.Sprint("breaker", limit, interval, callers, pattern, len(log), len(adm)))
	r.Count("breaker_calls_logged", len(log))
	r.Count("breaker_admissions", len(adm))
	head := log
	if len(head) > 12 {
		head = head[:12]
	}
	wit := rep.J{"kind": "breaker", "limit": limit, "interval_ms": interval.Milliseconds(), "callers": callers, "pattern": pattern, "calls": len(log), "admissions": len(adm)}
	// rate clause: limit+1 admissions certainly inside one window
	for i := 0; i+int(limit) < len(adm); i++ {
		maxAfter := int64(0)
		for j := i; j <= i+int(limit); j++ {
			if adm[j].After > maxAfter {
				maxAfter = adm[j].After
			}
		}
		if maxAfter-adm[i].Before < interval.Nanoseconds() {
			wit["window"] = adm[i : i+int(limit)+1]
			r.Violate("", fmt.Sprintf("%d admissions within %.1f ms, the limit is %d per %v", limit+1, float64(maxAfter-adm[i].Before)/1e6, limit, interval), wit)
			return
		}
	}
	// recovery clause: a poll is refused although every earlier admission certainly aged out (plus one tick)
	lastAdmAfter := int64(-1)
	for i, c := range log {
		if c.Ok {
			if c.After > lastAdmAfter {
				lastAdmAfter = c.After
			}
			continue
		}
		// consider all admissions that started before this poll ended
		latest := int64(-1)
		for _, a := range adm {
			if a.Before < c.After && a.After > latest {
				latest = a.After
			}
		}
		if latest >= 0 && c.Before > latest+interval.Nanoseconds()+2*tick {
			// The window certainly aged out, yet the poll is refused.  Is it explained by the
			// listed defect (slide() drops the fraction of a tick elapsed since the previous
			// call)?  Count, with the most generous reading of the timestamps, how many whole
			// ticks the breaker's own accounting can have slid since the latest admission.
			// slid is a LOWER bound (the breaker's clock readings lie inside [before, after]):
			// only when even the lower bound reaches the whole window is the refusal certainly
			// not explained by the listed defect.
			slid := int64(0)
			prevAfter := int64(-1)
			for _, x := range log[:i+1] {
				if x.After <= latest {
					prevAfter = x.After
					continue
				}
				if prevAfter >= 0 && x.Before > prevAfter {
					slid += (x.Before - prevAfter) / tick
				}
				if x.After > prevAfter {
					prevAfter = x.After
				}
			}
			wit["refused_poll"] = c
			wit["latest_admission_after_ns"] = latest
			wit["min_whole_ticks_slid"] = slid
			if slid < 20 {
				r.Violate("c20.breaker-slide-drops-remainder", "the breaker refuses a poll although every admission aged out of the window: polling keeps resetting its clock and the fractions of a tick between polls are lost", wit)
			} else {
				r.Violate("", "the breaker refuses a poll although every earlier admission aged out of the window and, by its own whole-tick accounting, the window has slid completely", wit)
			}
			return
		}
	}
	if reached && r.WantSample() {
		wit["first_calls"] = head
		r.Sample(wit)
	}
}

// ---------- throttle ----------

// probe wraps the throttle's breaker: every attempt of a submission passes
// through Do on the submitter's own goroutine, strictly between the moment the
// submission was counted as pending and the moment it stopped being counted.
// So a submission is certainly waiting from its first to its last attempt.
type probe struct {
	core.Breaker
	mu          sync.Mutex
	first, last map[int64]time.Time
}

func gid() int64 {
	var buf [64]byte
	n := runtime.Stack(buf[:], false)
	f := strings.Fields(string(buf[:n]))
	if len(f) < 2 {
		return -1
	}
	id, _ := strconv.ParseInt(f[1], 10, 64)
	return id
}

func (p *probe) Do(f func() error) (bool, error) {
	id, now := gid(), time.Now()
	p.mu.Lock()
	if _, ok := p.first[id]; !ok {
		p.first[id] = now
	}
	p.last[id] = now
	p.mu.Unlock()
	return p.Breaker.Do(f)
}

// maxWaiting: the largest number of submissions that were certainly waiting at one instant.
func (p *probe) maxWaiting() int {
	type pt struct {
		t time.Time
		d int
	}
	var pts []pt
	p.mu.Lock()
	for id, f := range p.first {
		pts = append(pts, pt{f, +1}, pt{p.last[id], -1})
	}
	p.mu.Unlock()
	sort.SliceStable(pts, func(i, j int) bool {
		if pts[i].t.Equal(pts[j].t) {
			return pts[i].d > pts[j].d
		}
		return pts[i].t.Before(pts[j].t)
	})
	cur, max := 0, 0
	for _, x := range pts {
		cur += x.d
		if cur > max {
			max = cur
		}
	}
	return max
}

func throttle(r *rep.Report, rng *rand.Rand, n int) {
	for run := 0; run < n; run++ {
		limit := int64(1 + rng.Intn(5))
		interval := time.Duration(30+rng.Intn(100)) * time.Millisecond
		pendingLimit := 1 + rng.Intn(4)
		attempts := 2 + rng.Intn(6)
		pause := time.Duration(1+rng.Intn(10)) * time.Millisecond
		submitters := 8 + rng.Intn(56)
		ob, _ := core.NewOutboundBreaker(limit, interval)
		// the breaker behind the throttle: the outbound breaker, a load-probe breaker (open for the first
		// milliseconds of the run, i.e. load over the limit, then closed), or the combination of both
		var load int64 = 10
		sb := core.NewSimpleBreaker(func() (float64, error) { return float64(atomic.LoadInt64(&load)), nil }, 1)
		breakerKind := []string{"outbound", "outbound", "load-probe", "combo"}[(run/4)%4]
		var inner core.Breaker = ob
		switch breakerKind {
		case "load-probe":
			inner = sb
		case "combo":
			inner = core.NewComboBreaker(ob, sb)
		}
		time.AfterFunc(time.Duration(2+rng.Intn(6))*time.Millisecond, func() { atomic.StoreInt64(&load, 0) })
		b := &probe{Breaker: inner, first: map[int64]time.Time{}, last: map[int64]time.Time{}}
		t, _ := core.NewThrottle(attempts, pendingLimit, pause, b)
		// the Disable switches: on the throttle's breaker, on the throttle itself, or neither
		mode := []string{"", "", "breaker-disabled", "throttle-disabled"}[run%4]
		switch mode {
		case "breaker-disabled":
			ob.Disable(true)
			sb.Disable(true)
		case "throttle-disabled":
			t.Disable(true)
		}
		r.Journal(rep.J{"throttle": run, "limit": limit, "pendingLimit": pendingLimit, "submitters": submitters})
		runs := make([]int64, submitters)
		res := make([]string, submitters)
		var maxPending int64
		stop := make(chan struct{})
		var sw sync.WaitGroup
		sw.Add(1)
		go func() {
			defer sw.Done()
			for {
				select {
				case <-stop:
					return
				default:
				}
				p, _ := t.Pending()
				if int64(p) > atomic.LoadInt64(&maxPending) {
					atomic.StoreInt64(&maxPending, int64(p))
				}
				time.Sleep(50 * time.Microsecond)
			}
		}()
		var wg sync.WaitGroup
		gate := make(chan struct{})
		for s := 0; s < submitters; s++ {
			wg.Add(1)
			go func(s int) {
				defer wg.Done()
				<-gate
				// one submitted function in eight panics (the panic is the submitter's to deal with)
				panics := run%2 == 1 && s%8 == 3
				var err error
				func() {
					defer func() {
						if x := recover(); x != nil {
							err = fmt.Errorf("panicked: %v", x)
						}
					}()
					err = t.Submit(func() error {
						atomic.AddInt64(&runs[s], 1)
						if panics {
							panic("the submitted function panics")
						}
						return nil
					})
				}()
				if panics && err != nil && strings.HasPrefix(err.Error(), "panicked") {
					res[s] = "ran" // it ran (once) and panicked
					return
				}
				switch err {
				case nil:
					res[s] = "ran"
				case core.ThrottleExhausted:
					res[s] = "exhausted"
				case core.ThrottleOverflow:
					res[s] = "overflow"
				default:
					res[s] = "err:" + err.Error()
				}
			}(s)
		}
		close(gate)
		wg.Wait()
		close(stop)
		sw.Wait()
		pend, _ := t.Pending()
		overflowed := false
		wit := rep.J{"kind": "throttle", "breaker": breakerKind, "disable_switch": mode, "limit": limit, "interval_ms": interval.Milliseconds(), "pendingLimit": pendingLimit, "attempts": attempts, "submitters": submitters, "max_pending_seen": maxPending, "pending_after": pend}
		for s := range res {
			if res[s] == "overflow" {
				overflowed = true
			}
			if runs[s] > 1 {
				r.Violate("", fmt.Sprintf("a submitted function ran %d times", runs[s]), wit)
			}
			if (res[s] == "ran") != (runs[s] == 1) {
				r.Violate("", fmt.Sprintf("Submit returned %q but the function ran %d times", res[s], runs[s]), wit)
			}
		}
		r.Case(overflowed, fmt.Sprint("throttle", run, limit, pendingLimit, submitters))
		if mode == "throttle-disabled" {
			// a disabled throttle does not limit: only at-most-once and the return of Pending() to 0 are judged
			r.Count("throttle_runs_with_throttle_disabled", 1)
		} else if maxPending > int64(pendingLimit)+1 {
			r.Violate("", fmt.Sprintf("Pending() reached %d, the limit is %d (+1)", maxPending, pendingLimit), wit)
		}
		if pend != 0 {
			r.Violate("", fmt.Sprintf("after all submissions returned Pending() is %d", pend), wit)
		}
		// independent of the throttle's own counter: submissions seen waiting (between their first and last attempt) at one instant
		waiting := b.maxWaiting()
		wit["max_waiting_observed"] = waiting
		r.Count("throttle_max_waiting_observed_total", waiting)
		if waiting > pendingLimit+1 && mode != "throttle-disabled" {
			r.Violate("", fmt.Sprintf("%d submissions were waiting at the same instant, the pending limit is %d (+1)", waiting, pendingLimit), wit)
		}
		r.Count("throttle_submissions", submitters)
	}
}

// groupCapacity: the maximum of a location can be configured per group of locations
// (SystemControl.LocToGroup + GroupControls), next to the default for all others.
func groupCapacity(r *rep.Report) {
	for _, linear := range []bool{false, true} {
		conf := sys.ExampleConfig()
		conf.UnindexedState = linear
		cont := sys.ExampleSystemControl()
		cont.LocationTTL = sys.Forever
		cont.DefaultLocControl = &core.Control{MaxFacts: 50, Verbosity: core.NOTHING, NoTiming: true}
		cont.LocToGroup = func(name string) string {
			if strings.HasPrefix(name, "small") {
				return "small"
			}
			return ""
		}
		cont.GroupControls = sys.GroupControls{"small": &core.Control{MaxFacts: 3, Verbosity: core.NOTHING, NoTiming: true}}
		s, err := sys.NewSystem(drv.Ctx(), *conf, *cont, cronner.New(true))
		if err != nil {
			r.Violate("", "cannot build a System with group controls: "+err.Error(), nil)
			continue
		}
		for _, loc := range []string{"small-1", "other-1", "small-2"} {
			max := 50
			if strings.HasPrefix(loc, "small") {
				max = 3
			}
			acked, refused := 0, 0
			for i := 0; i < 10; i++ {
				var aerr error
				if i%3 == 2 {
					_, aerr = s.AddRule(drv.Ctx(), loc, fmt.Sprintf("r%d", i), `{"when":{"pattern":{"a":"b"}},"action":{"code":"1"}}`)
				} else {
					_, aerr = s.AddFact(drv.Ctx(), loc, fmt.Sprintf("g%d", i), fmt.Sprintf(`{"n":%d}`, i))
				}
				if aerr == nil {
					acked++
				} else {
					refused++
				}
			}
			size, _ := s.GetSize(drv.Ctx(), loc)
			r.Case(true, fmt.Sprint("group-capacity", linear, loc))
			r.Count("group_capacity_cases", 1)
			want := 10
			if max < want {
				want = max
			}
			if size > max || acked != want {
				r.Violate("", fmt.Sprintf("a location whose group is configured with a maximum of %d holds %d items after 10 adds (%d acknowledged, %d refused)", max, size, acked, refused), rep.J{"linear": linear, "location": loc, "configured_maximum": max, "size": size, "acknowledged": acked, "refused": refused})
			}
		}
		// building a System installs its default control process-wide: leave the usual one behind
		drv.NewSys(drv.SysOpts{}, cronner.New(true))
	}
}

func main() {
	e := rep.GetEnv()
	r := rep.New(e)
	rng := rand.New(rand.NewSource(e.BatchSeed()))
	switch e.Stage {
	case "capacity":
		if e.Batch == 0 {
			groupCapacity(r)
		}
		capacity(r, rng, e.Pick(400, 3000))
		capacityConcurrent(r, rng, e.Pick(240, 1500))
	case "breaker":
		breaker(r, rng, e.Pick(6, 30))
		httpBreaker(r, rng, e.Pick(4, 20))
	case "throttle":
		throttle(r, rng, e.Pick(30, 200))
	}
	r.Write()
	fmt.Fprintf(os.Stderr, "c20 %s batch %d: %d evaluations\n", e.Stage, e.Batch, r.Evaluations)
}
