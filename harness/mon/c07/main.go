// Monitor for C07: expiry is absolute and expired items are never observable.
// Timed scenarios (item kind x expiry encoding x state x observation schedule)
// run in parallel on separate locations; every observation carries
// [before, after] in UNIX seconds (the code's clock is whole seconds) and a
// verdict needs the intervals to make it certain (DESIGN §4.10).
package main

import (
	"encoding/json"
	"fmt"
	"os"
	"strings"
	"sync"
	"time"

	"github.com/Comcast/rulio/core"

	"verif/lib/drv"
	"verif/lib/gen"
	"verif/lib/ref"
	"verif/lib/rep"
	"verif/lib/store"
)

type scenario struct {
	Kind     string   `json:"item"`     // fact | rule
	Encoding string   `json:"encoding"` // expires-num | expires-rfc3339 | ttl-num | ttl-dur | none
	State    string   `json:"state"`
	Ahead    int      `json:"ahead_s"`
	Steps    []string `json:"schedule"` // "<offset ms>:<action>"  actions: get search dispatch list reload
}

type obsv struct {
	Action  string `json:"action"`
	Before  int64  `json:"before_unix"`
	After   int64  `json:"after_unix"`
	Present bool   `json:"present"`
	Expires string `json:"expires_reported,omitempty"`
	Err     string `json:"err,omitempty"`
	Stored  string `json:"stored_record,omitempty"`
	Fault   bool   `json:"storage_fault_injected,omitempty"`
}

type result struct {
	S       scenario `json:"scenario"`
	WBefore int64    `json:"write_before_unix"`
	WAfter  int64    `json:"write_after_unix"`
	WErr    string   `json:"write_err,omitempty"`
	Given   int64    `json:"given_expiry,omitempty"`
	Obs     []obsv   `json:"observations"`
	// Bystanders: items without an expiry stored next to the timed one; what is left of them at the end
	BystandersLive   []string `json:"bystanders_live"`
	BystandersStored []string `json:"bystanders_stored"`
}

var bystanders = []string{"by1", "by2", "by3", "byrule"}

func runScenario(s scenario, idx int) result {
	res := result{S: s}
	st := drv.MustMem()
	wst := store.New(st)
	name := fmt.Sprintf("T%d", idx)
	loc, err := drv.NewLoc(name, s.State, wst)
	if err != nil {
		res.WErr = err.Error()
		return res
	}
	item := map[string]interface{}{}
	viaScript := false
	now := time.Now().Unix()
	switch s.Encoding {
	case "expires-num":
		res.Given = now + int64(s.Ahead)
		item["expires"] = float64(res.Given)
	case "expires-rfc3339":
		res.Given = now + int64(s.Ahead)
		item["expires"] = time.Unix(res.Given, 0).UTC().Format(time.RFC3339)
	case "expires-rfc3339-east", "expires-rfc3339-west":
		// the same instant written with a numeric zone offset
		res.Given = now + int64(s.Ahead)
		zone := time.FixedZone("east", 3*3600)
		if s.Encoding == "expires-rfc3339-west" {
			zone = time.FixedZone("west", -5*3600)
		}
		item["expires"] = time.Unix(res.Given, 0).In(zone).Format(time.RFC3339)
	case "ttl-num":
		item["ttl"] = float64(s.Ahead)
	case "ttl-dur":
		item["ttl"] = fmt.Sprintf("%ds", s.Ahead)
	case "ttl-int64":
		// a whole number of seconds as Go callers and scripts pass it (otto exports 5 as int64)
		item["ttl"] = int64(s.Ahead)
	case "ttl-script":
		viaScript = true
		item["ttl"] = float64(s.Ahead)
	}
	ctx := drv.Ctx()
	for _, b := range bystanders[:3] {
		loc.AddFact(ctx, b, core.Map{"what": "timed", "bystander": b})
	}
	loc.AddRule(ctx, "byrule", core.Map{"when": map[string]interface{}{"pattern": map[string]interface{}{"tick": "tock"}}, "action": map[string]interface{}{"code": "'bystander'"}})
	res.WBefore = time.Now().Unix()
	if s.Kind == "fact" && viaScript {
		item["what"] = "timed"
		js, _ := json.Marshal(item)
		_, err = loc.RunJavascript(ctx, "Env.AddFact('it', "+string(js)+")", nil, nil, nil)
	} else if s.Kind == "fact" {
		item["what"] = "timed"
		_, err = loc.AddFact(ctx, "it", core.Map(item))
	} else {
		item["when"] = map[string]interface{}{"pattern": map[string]interface{}{"tick": "tock"}}
		item["action"] = map[string]interface{}{"code": "1"}
		_, err = loc.AddRule(ctx, "it", core.Map(item))
	}
	res.WAfter = time.Now().Unix()
	start := time.Now()
	if err != nil {
		res.WErr = err.Error()
		return res
	}
	for _, step := range s.Steps {
		var ms int
		var action string
		fmt.Sscanf(step, "%d:%s", &ms, &action)
		if d := time.Duration(ms)*time.Millisecond - time.Since(start); d > 0 {
			time.Sleep(d)
		}
		o := obsv{Action: action}
		if strings.HasPrefix(action, "fault-") {
			// the next storage call (the purge of the expired item) fails
			action = strings.TrimPrefix(action, "fault-")
			o.Fault = true
			wst.FailAt = wst.NCalls() + 1
		}
		o.Before = time.Now().Unix()
		switch action {
		case "reload":
			l2, err := drv.NewLoc(name, s.State, wst)
			if err != nil {
				o.Err = err.Error()
			} else {
				loc = l2
			}
			o.After = time.Now().Unix()
			res.Obs = append(res.Obs, o)
			continue
		case "get":
			f, err := loc.GetFact(drv.Ctx(), "it")
			if err == nil {
				o.Present = true
				o.Expires = fmt.Sprint(f["expires"])
			} else if _, nf := err.(*core.NotFoundError); !nf {
				o.Err = err.Error()
			}
		case "search":
			p := core.Map{"what": "timed"}
			if s.Kind == "rule" {
				p = core.Map{"rule": "?r"}
			}
			srs, err := loc.SearchFacts(drv.Ctx(), p, false)
			if err != nil {
				o.Err = err.Error()
			} else {
				for _, f := range srs.Found {
					if f.Id == "it" {
						o.Present = true
						var m map[string]interface{}
						if json.Unmarshal([]byte(f.Js), &m) == nil {
							o.Expires = fmt.Sprint(m["expires"])
						}
					}
				}
			}
		case "dispatch":
			fr := &core.FindRules{Event: map[string]interface{}{"tick": "tock"}}
			fr.Do(drv.Ctx(), loc)
			if fr.Disposition != core.Complete {
				o.Err = fr.Disposition.Msg
			}
			for _, c := range fr.Children {
				if c.Rule.Id == "it" {
					o.Present = true
					o.Expires = fmt.Sprint(int64(c.Rule.Expires))
				}
			}
		case "list":
			rs, err := loc.ListRules(drv.Ctx(), false)
			if err != nil {
				o.Err = err.Error()
			}
			for _, id := range rs {
				if id == "it" {
					o.Present = true
				}
			}
		}
		o.After = time.Now().Unix()
		wst.FailAt = 0
		st.Lock()
		if rec, ok := st.State(nil)[name]["it"]; ok {
			o.Stored = rec
		}
		st.Unlock()
		res.Obs = append(res.Obs, o)
	}
	for _, b := range bystanders {
		if _, err := loc.GetFact(drv.Ctx(), b); err == nil {
			res.BystandersLive = append(res.BystandersLive, b)
		}
	}
	st.Lock()
	for _, b := range bystanders {
		if _, ok := st.State(nil)[name][b]; ok {
			res.BystandersStored = append(res.BystandersStored, b)
		}
	}
	st.Unlock()
	return res
}

func normExp(s string) string {
	// 4.1024448e+09 vs 4102444800
	var f float64
	if _, err := fmt.Sscan(s, &f); err == nil {
		return fmt.Sprint(int64(f))
	}
	return s
}

func judge(r *rep.Report, res result) {
	s := res.S
	wit := rep.J{"result": res}
	if res.WErr != "" {
		if s.Kind == "rule" && strings.HasPrefix(s.Encoding, "expires-rfc3339") {
			// Rule.expires is a number: an RFC3339 expiry on a rule is refused by AddRule.
			// A refused write is not an observation (DESIGN §5 C07).
			r.Count("refused_rule_rfc3339", 1)
			r.Case(false, fmt.Sprint(s))
			return
		}
		r.Case(false, fmt.Sprint(s))
		r.Violate("", "writing an item with a future expiry failed: "+res.WErr, wit)
		return
	}
	if len(res.BystandersLive) != len(bystanders) || len(res.BystandersStored) != len(bystanders) {
		r.Violate("", "items without an expiry that were stored next to the timed item are gone at the end of the schedule", wit)
	}
	var lo, hi int64 // E lies in [lo, hi]
	switch s.Encoding {
	case "expires-num", "expires-rfc3339", "expires-rfc3339-east", "expires-rfc3339-west":
		lo, hi = res.Given, res.Given
	case "ttl-num", "ttl-dur", "ttl-int64", "ttl-script":
		lo, hi = res.WBefore+int64(s.Ahead), res.WAfter+int64(s.Ahead)
	case "none":
		lo, hi = 1<<62, 1<<62
	}
	certBefore, certAfter := false, false
	reported := ""
	absentSeen := false
	for _, o := range res.Obs {
		if o.Action == "reload" {
			if o.Err != "" {
				r.Violate("", "reload failed: "+o.Err, wit)
			}
			continue
		}
		if o.Fault {
			// the purge failed: an error is fine, handing the expired item out is not
			r.Count("observations_with_storage_fault", 1)
			if o.Present && o.Before >= hi {
				r.Violate("", fmt.Sprintf("an expired item was handed out (%s) because purging it from storage failed", o.Action), wit)
			}
			if o.Before >= hi {
				certAfter = true
			}
			continue
		}
		if o.Err != "" {
			r.Violate("", "observation failed: "+o.Err, wit)
			continue
		}
		if o.Present && s.Encoding != "none" && o.Expires != "" && o.Action != "list" {
			e := normExp(o.Expires)
			if reported == "" {
				reported = e
				var ev int64
				fmt.Sscan(e, &ev)
				if ev < lo || ev > hi {
					r.Violate("", fmt.Sprintf("the expiry instant reported (%s) is not the one fixed at write time [%d, %d]", e, lo, hi), wit)
				}
				lo, hi = ev, ev // from now on E is known exactly
			} else if e != reported {
				r.Violate("", fmt.Sprintf("the expiry instant moved: first reported %s, later %s (reads or a reload must not move it)", reported, e), wit)
			}
		}
		switch {
		case o.After < lo: // certainly before E
			certBefore = true
			if !o.Present {
				r.Violate("", fmt.Sprintf("the item is not observable (%s) although the observation ended before its expiry instant", o.Action), wit)
			}
		case o.Before >= hi: // certainly at/after E
			certAfter = true
			if o.Present {
				r.Violate("", fmt.Sprintf("the item is still observable (%s) at or after its expiry instant", o.Action), wit)
			}
		}
		if absentSeen && o.Stored != "" && s.Encoding != "none" {
			r.Violate("", "after the expired item was observed absent its storage record is still there", wit)
		}
		if !o.Present && o.Before >= hi && (o.Action == "get" || o.Action == "search" || o.Action == "dispatch") {
			if o.Stored != "" {
				// the observation that found it expired must purge it
				r.Violate("", "an observation found the item expired but its storage record was not purged", wit)
			}
			absentSeen = true
		}
	}
	if s.Encoding == "none" {
		certBefore, certAfter = true, true
	}
	r.Case(certBefore && certAfter, fmt.Sprint(s))
	if certBefore && certAfter && r.WantSample() {
		r.Sample(wit)
	}
}

func main() {
	e := rep.GetEnv()
	r := rep.New(e)
	g := gen.New(e.BatchSeed())
	var scs []scenario
	rounds := e.Pick(1, 3)
	for round := 0; round < rounds; round++ {
		for _, kind := range []string{"fact", "rule"} {
			for _, enc := range []string{"expires-num", "expires-rfc3339", "expires-rfc3339-east", "expires-rfc3339-west", "ttl-num", "ttl-dur", "ttl-int64", "ttl-script", "none"} {
				for _, state := range drv.Kinds {
					for variant := 0; variant < 6; variant++ {
						ahead := 3 + g.Intn(2)
						E := ahead * 1000
						var steps []string
						acts := []string{"get", "search"}
						if kind == "rule" {
							acts = []string{"get", "search", "dispatch", "list"}
						}
						a := func() string { return acts[g.Intn(len(acts))] }
						switch variant {
						case 0: // read, reload late enough that a restarted ttl would show, read, E, reads
							steps = []string{"150:" + a(), "1300:reload", "1450:" + a(), fmt.Sprintf("%d:%s", E+1200, a()), fmt.Sprintf("%d:%s", E+1400, a())}
						case 1: // reload immediately, reads around E, reload after E
							steps = []string{"50:reload", "300:" + a(), fmt.Sprintf("%d:%s", E-1500, a()), fmt.Sprintf("%d:reload", E+1100), fmt.Sprintf("%d:%s", E+1300, a()), fmt.Sprintf("%d:%s", E+1500, a())}
						case 5: // reload long before the expiry, then one kind of observation only (for rules: dispatch)
						one := a()
						if kind == "rule" {
							one = "dispatch"
						}
						steps = []string{"100:reload", "400:" + one, fmt.Sprintf("%d:%s", E+1200, one), fmt.Sprintf("%d:reload", E+1350), fmt.Sprintf("%d:%s", E+1500, one)}
					case 4: // one kind of observation only, nothing else touches the item in between (a rule that
							// was dispatched before its expiry sits in the parsed-rule cache when the expiry passes)
							one := a()
							if kind == "rule" {
								one = "dispatch"
							}
							steps = []string{"150:" + one, fmt.Sprintf("%d:%s", E-1300, one), fmt.Sprintf("%d:%s", E+1200, one), fmt.Sprintf("%d:%s", E+1500, one)}
						case 3: // the storage fails exactly when the expired item is first seen
							steps = []string{"150:" + a(), fmt.Sprintf("%d:fault-%s", E+1200, a()), fmt.Sprintf("%d:%s", E+1400, a()), fmt.Sprintf("%d:%s", E+1500, a())}
						default: // reads only, dense around the boundary second
							steps = []string{"100:" + a(), fmt.Sprintf("%d:%s", E-1200, a()), fmt.Sprintf("%d:%s", E-200, a()), fmt.Sprintf("%d:%s", E+300, a()), fmt.Sprintf("%d:%s", E+1100, a()), fmt.Sprintf("%d:reload", E+1200), fmt.Sprintf("%d:%s", E+1400, a())}
						}
						scs = append(scs, scenario{Kind: kind, Encoding: enc, State: state, Ahead: ahead, Steps: steps})
					}
				}
			}
		}
	}
	results := make([]result, len(scs))
	var wg sync.WaitGroup
	for i := range scs {
		wg.Add(1)
		go func(i int) {
			defer wg.Done()
			results[i] = runScenario(scs[i], i)
		}(i)
	}
	wg.Wait()
	for _, res := range results {
		r.Journal(res.S)
		judge(r, res)
	}
	// already-expired writes must be rejected
	for _, state := range drv.Kinds {
		loc, _ := drv.NewLoc("X", state, drv.MustMem())
		past := time.Now().Unix() - 5
		for name, item := range map[string]core.Map{
			"expires-num":          {"what": "old", "expires": float64(past)},
			"expires-rfc3339":      {"what": "old", "expires": time.Unix(past, 0).UTC().Format(time.RFC3339)},
			"expires-rfc3339-east": {"what": "old", "expires": time.Unix(past, 0).In(time.FixedZone("east", 3*3600)).Format(time.RFC3339)},
			"expires-rfc3339-west": {"what": "old", "expires": time.Unix(past, 0).In(time.FixedZone("west", -5*3600)).Format(time.RFC3339)},
			"ttl-negative":         {"what": "old", "ttl": -2.0},
			"ttl-zero-dur":         {"what": "old", "ttl": "-3s"},
		} {
			_, err := loc.AddFact(drv.Ctx(), "old", item)
			r.Case(true, "expired-write"+state+name)
			r.Count("already_expired_writes", 1)
			if err == nil {
				r.Violate("", "writing an already-expired fact ("+name+") was accepted", rep.J{"state": state, "item": item})
			} else if !strings.Contains(strings.ToLower(err.Error()), "expire") {
				r.Note("expired_write_error_"+name, err.Error())
			}
			rule := core.Map{"when": map[string]interface{}{"pattern": map[string]interface{}{"a": 1.0}}, "action": map[string]interface{}{"code": "1"}, "expires": float64(past)}
			if _, err := loc.AddRule(drv.Ctx(), "oldr", rule); err == nil {
				r.Violate("", "writing an already-expired rule was accepted", rep.J{"state": state, "rule": rule})
			}
		}
	}
	_ = ref.Canon
	r.Write()
	fmt.Fprintf(os.Stderr, "c07 batch %d: %d evaluations\n", e.Batch, r.Evaluations)
}
