// Package cronner is the harness implementation of cron.Cronner: it records
// every registration and removal (with the location taken from the context at
// call time) and lets the monitor deliver ticks itself.
package cronner

import (
	"sort"
	"sync"

	"github.com/Comcast/rulio/core"
	"github.com/Comcast/rulio/cron"
)

type Job struct {
	Location string `json:"location"`
	Id       string `json:"id"`
	Event    string `json:"event"`
	Schedule string `json:"schedule"`
}

type Call struct {
	Op       string `json:"op"` // schedule | rem
	Location string `json:"location"`
	Id       string `json:"id"`
	Schedule string `json:"schedule,omitempty"`
}

type Recorder struct {
	mu         sync.Mutex
	persistent bool
	// Jobs is keyed by location + "\x00" + id (the recorder, unlike the
	// built-in cron, keeps locations apart so that it can report what the
	// engine asked for).
	jobs  map[string]Job
	Calls []Call
}

func New(persistent bool) *Recorder {
	return &Recorder{persistent: persistent, jobs: map[string]Job{}}
}

func locOf(ctx *core.Context) string {
	if ctx != nil && ctx.GetLoc() != nil {
		return ctx.GetLoc().Name
	}
	return ""
}

func (r *Recorder) ScheduleEvent(ctx *core.Context, se *cron.ScheduledEvent) error {
	r.mu.Lock()
	defer r.mu.Unlock()
	l := locOf(ctx)
	r.jobs[l+"\x00"+se.Id] = Job{l, se.Id, se.Event, se.Schedule}
	r.Calls = append(r.Calls, Call{"schedule", l, se.Id, se.Schedule})
	return nil
}

func (r *Recorder) Schedule(ctx *core.Context, work *cron.ScheduledWork) error { return nil }

func (r *Recorder) Rem(ctx *core.Context, id string) (bool, error) {
	r.mu.Lock()
	defer r.mu.Unlock()
	l := locOf(ctx)
	_, had := r.jobs[l+"\x00"+id]
	delete(r.jobs, l+"\x00"+id)
	r.Calls = append(r.Calls, Call{"rem", l, id, ""})
	return had, nil
}

func (r *Recorder) Persistent() bool { return r.persistent }

// Jobs returns the registered jobs sorted by location and id.
func (r *Recorder) Jobs() []Job {
	r.mu.Lock()
	defer r.mu.Unlock()
	out := make([]Job, 0, len(r.jobs))
	for _, j := range r.jobs {
		out = append(out, j)
	}
	sort.Slice(out, func(i, j int) bool {
		if out[i].Location != out[j].Location {
			return out[i].Location < out[j].Location
		}
		return out[i].Id < out[j].Id
	})
	return out
}

// Drop forgets a job (a one-shot job that the monitor has delivered).
func (r *Recorder) Drop(location, id string) {
	r.mu.Lock()
	delete(r.jobs, location+"\x00"+id)
	r.mu.Unlock()
}

// Reset forgets everything (an ephemeral cron service that restarted).
func (r *Recorder) Reset() {
	r.mu.Lock()
	r.jobs = map[string]Job{}
	r.mu.Unlock()
}
