// Package gen holds the seeded generators for the JSON fragment (DESIGN §4.1).
package gen

import (
	"math/rand"
	"sort"
	"strings"

	"verif/lib/ref"
)

type Gen struct {
	R *rand.Rand
	// LongStrings lets scalar() produce strings of ≥1024 characters (C02).
	LongStrings bool
	// Escapes lets scalar() produce strings needing URL/JSON escaping (C18).
	Escapes bool
	// Lookalikes lets Scalar() produce strings that print like values of
	// another JSON type ("1", "true", "null"), next to the values themselves.
	Lookalikes bool
}

func New(seed int64) *Gen { return &Gen{R: rand.New(rand.NewSource(seed))} }

var Keys = []string{"a", "b", "c", "d", "k", "n"}
var Strs = []string{"s1", "s2", "x", "y", ""}
var Nums = []float64{0, 1, 2, -1, 3.5, 1000}
var Vars = []string{"?x", "?y", "?z"}

var long1 = strings.Repeat("L", 1024)
var long2 = strings.Repeat("M", 1100)
var escapes = []string{"a b", "q&r=1", "50%", "é☃", "\"quoted\"", "a/b?c#d", "x+y", "line\nbreak", "'single'", "{curly}", "back\\slash", "<tag>"}

func (g *Gen) Intn(n int) int { return g.R.Intn(n) }

func (g *Gen) Pick(ss []string) string { return ss[g.R.Intn(len(ss))] }

func (g *Gen) Scalar() interface{} {
	switch g.R.Intn(12) {
	case 0, 1, 2, 3:
		return Strs[g.R.Intn(len(Strs))]
	case 4, 5, 6:
		return Nums[g.R.Intn(len(Nums))]
	case 7:
		return g.R.Intn(2) == 0
	case 8:
		return nil
	case 9:
		if g.LongStrings {
			if g.R.Intn(2) == 0 {
				return long1
			}
			return long2
		}
	case 10:
		if g.Escapes {
			return escapes[g.R.Intn(len(escapes))]
		}
	case 11:
		if g.Lookalikes {
			return lookalikes[g.R.Intn(len(lookalikes))]
		}
	}
	return Strs[g.R.Intn(len(Strs))]
}

var lookalikes = []interface{}{"1", 1.0, "0", 0.0, "true", true, "false", false, "null", "3.5", "-1", "s1 s2", "[s1 s2]", "map[]"}

// Str returns a string scalar.
func (g *Gen) Str() string {
	if g.Escapes && g.R.Intn(3) == 0 {
		return escapes[g.R.Intn(len(escapes))]
	}
	return Strs[g.R.Intn(len(Strs))]
}

// ScalarArray: array of n distinct non-null scalars of one kind (so that it
// is inside the documented fragment: arrays are sets of distinct scalars).
func (g *Gen) ScalarArray(n int) []interface{} {
	seen := map[string]bool{}
	a := []interface{}{}
	kind := g.R.Intn(3) // 0 strings, 1 numbers, 2 mixed
	for tries := 0; len(a) < n && tries < 50; tries++ {
		var s interface{}
		switch kind {
		case 0:
			s = Strs[g.R.Intn(len(Strs))]
		case 1:
			s = Nums[g.R.Intn(len(Nums))]
		default:
			s = g.Scalar()
		}
		if s == nil {
			continue
		}
		c := ref.Canon(s)
		if seen[c] {
			continue
		}
		seen[c] = true
		a = append(a, s)
	}
	return a
}

func (g *Gen) Value(depth int) interface{} {
	if depth <= 0 {
		return g.Scalar()
	}
	switch g.R.Intn(10) {
	case 0, 1, 2:
		return g.Map(depth - 1)
	case 3:
		return g.ScalarArray(g.R.Intn(4))
	case 4:
		n := 1 + g.R.Intn(2)
		a := []interface{}{}
		for i := 0; i < n; i++ {
			a = append(a, g.Map(depth-1))
		}
		return a
	}
	return g.Scalar()
}

func (g *Gen) Map(depth int) map[string]interface{} {
	m := map[string]interface{}{}
	n := 1 + g.R.Intn(3)
	for i := 0; i < n; i++ {
		m[Keys[g.R.Intn(len(Keys))]] = g.Value(depth)
	}
	return m
}

func sortedKeys(m map[string]interface{}) []string {
	ks := make([]string, 0, len(m))
	for k := range m {
		ks = append(ks, k)
	}
	sort.Strings(ks)
	return ks
}

// PatternFrom derives a pattern from a datum: drops keys/elements, replaces
// sub-values by variables (with repeats), perturbs constants.
func (g *Gen) PatternFrom(d interface{}, top bool) interface{} {
	if !top && g.R.Intn(5) == 0 {
		return Vars[g.R.Intn(len(Vars))]
	}
	switch v := d.(type) {
	case map[string]interface{}:
		m := map[string]interface{}{}
		ks := sortedKeys(v)
		for _, k := range ks {
			if g.R.Intn(4) == 0 && !(top && len(m) == 0) {
				continue
			}
			m[k] = g.PatternFrom(v[k], false)
		}
		if top && len(m) == 0 && len(ks) > 0 {
			m[ks[0]] = g.PatternFrom(v[ks[0]], false)
		}
		if g.R.Intn(12) == 0 {
			m[Keys[g.R.Intn(len(Keys))]] = g.Scalar()
		}
		return m
	case []interface{}:
		a := []interface{}{}
		usedVar := false
		for _, e := range v {
			if g.R.Intn(3) == 0 {
				continue
			}
			switch e.(type) {
			case map[string]interface{}:
				a = append(a, g.PatternFrom(e, true))
			default:
				if !usedVar && g.R.Intn(3) == 0 {
					a = append(a, Vars[g.R.Intn(len(Vars))])
					usedVar = true
				} else {
					a = append(a, e)
				}
			}
		}
		return a
	default:
		if g.R.Intn(10) == 0 {
			return g.Scalar()
		}
		return d
	}
}

// PatternMapFrom is PatternFrom for a top-level object.
func (g *Gen) PatternMapFrom(d map[string]interface{}) map[string]interface{} {
	return g.PatternFrom(d, true).(map[string]interface{})
}

// DataFrom derives a datum from a pattern: variables get values, keys are added.
func (g *Gen) DataFrom(p interface{}) interface{} {
	switch v := p.(type) {
	case string:
		if ref.IsVar(v) {
			return g.Value(1)
		}
		return v
	case map[string]interface{}:
		m := map[string]interface{}{}
		for _, k := range sortedKeys(v) {
			kk := k
			if ref.IsVar(k) {
				kk = Keys[g.R.Intn(len(Keys))]
			}
			m[kk] = g.DataFrom(v[k])
		}
		if g.R.Intn(2) == 0 {
			m[Keys[g.R.Intn(len(Keys))]] = g.Value(1)
		}
		return m
	case []interface{}:
		a := []interface{}{}
		for _, e := range v {
			a = append(a, g.DataFrom(e))
		}
		return a
	}
	return p
}

// InFragment reports whether x stays inside the documented fragment for
// patterns/data: arrays hold distinct scalars (at most one variable) or maps
// only, no null inside arrays, no nested arrays, property variable only as sole key.
func InFragment(x interface{}) bool {
	switch v := x.(type) {
	case map[string]interface{}:
		pv := 0
		for k, e := range v {
			if ref.IsVar(k) {
				pv++
			}
			if !InFragment(e) {
				return false
			}
		}
		if pv > 0 && len(v) > 1 {
			return false
		}
	case []interface{}:
		vars, maps, scal := 0, 0, 0
		seen := map[string]bool{}
		for _, e := range v {
			switch ee := e.(type) {
			case []interface{}:
				return false
			case nil:
				return false
			case map[string]interface{}:
				maps++
				if !InFragment(ee) {
					return false
				}
			case string:
				if ref.IsVar(ee) {
					vars++
				} else {
					scal++
				}
				if seen[ref.Canon(e)] {
					return false
				}
				seen[ref.Canon(e)] = true
			default:
				scal++
				if seen[ref.Canon(e)] {
					return false
				}
				seen[ref.Canon(e)] = true
			}
		}
		if vars > 1 {
			return false
		}
		if maps > 0 && (scal > 0 || vars > 0) {
			return false
		}
	}
	return true
}

// HasVarString: any string value or key starting with '?' in data position.
func HasVarString(x interface{}) bool {
	return len(ref.VarsOf(x, nil)) > 0
}

// InFragmentLoose is InFragment for data (events/facts): heterogeneous scalar
// arrays are allowed (JSON permits them), nested arrays and nulls in arrays
// are not.
func InFragmentLoose(x interface{}) bool {
	switch v := x.(type) {
	case map[string]interface{}:
		for _, e := range v {
			if !InFragmentLoose(e) {
				return false
			}
		}
	case []interface{}:
		seen := map[string]bool{}
		for _, e := range v {
			switch ee := e.(type) {
			case []interface{}, nil:
				return false
			case map[string]interface{}:
				if !InFragmentLoose(ee) {
					return false
				}
			default:
				if seen[ref.Canon(e)] {
					return false
				}
				seen[ref.Canon(e)] = true
			}
		}
	}
	return true
}
