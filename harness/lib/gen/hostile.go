package gen

import "strings"

// Hostile document grammar (DESIGN §4.1, C13): wrong types under reserved
// keys, variable-looking strings as data / keys / ids, empty and deep
// containers, heterogeneous arrays.

var reserved = []string{"rule", "when", "pattern", "schedule", "expires", "ttl", "deleteWith", "id", "!p", "!disabled", "!parents",
	"condition", "action", "actions", "code", "policies", "once", "props", "locations", "and", "or", "not", "endpoint", "opts", "trigger!", "evaluate!", "_id"}

// HVars are the variable-looking strings hostile *data* may contain.  They are
// disjoint from the variables that the campaign's own patterns use, so that
// the (process-fatal, listed) sheens recursion on "same variable string in
// pattern and datum" stays confined to its dedicated child.
var HVars = []string{"?a", "?b", "?", "??c", "?d<1", "?e!"}

func (g *Gen) hscalar() interface{} {
	switch g.R.Intn(16) {
	case 0:
		return nil
	case 1:
		return true
	case 2:
		return false
	case 3:
		return 5.0
	case 4:
		return -1.5
	case 5:
		return 1e18
	case 6:
		return ""
	case 7:
		return "x"
	case 8, 9:
		return HVars[g.R.Intn(len(HVars))]
	case 10:
		return "+1s"
	case 11:
		return "2020-01-01T00:00:00Z"
	case 12:
		return "not a time"
	case 13:
		return strings.Repeat("z", 1100)
	case 14:
		return 0.0
	}
	return Strs[g.R.Intn(len(Strs))]
}

func (g *Gen) hkey() string {
	switch g.R.Intn(6) {
	case 0, 1, 2:
		return reserved[g.R.Intn(len(reserved))]
	case 3:
		return HVars[g.R.Intn(len(HVars))]
	}
	return Keys[g.R.Intn(len(Keys))]
}

// HValue: a hostile JSON value.
func (g *Gen) HValue(depth int) interface{} {
	if depth <= 0 {
		return g.hscalar()
	}
	switch g.R.Intn(12) {
	case 0, 1, 2, 3:
		return g.HMap(depth - 1)
	case 4:
		return []interface{}{}
	case 5:
		return map[string]interface{}{}
	case 6, 7: // heterogeneous array
		n := 1 + g.R.Intn(4)
		a := make([]interface{}, n)
		for i := range a {
			a[i] = g.HValue(depth - 1)
		}
		return a
	case 8: // deep nesting
		var v interface{} = g.hscalar()
		d := 8 + g.R.Intn(56)
		for i := 0; i < d; i++ {
			if g.R.Intn(2) == 0 {
				v = map[string]interface{}{g.hkey(): v}
			} else {
				v = []interface{}{v}
			}
		}
		return v
	}
	return g.hscalar()
}

func (g *Gen) HMap(depth int) map[string]interface{} {
	m := map[string]interface{}{}
	n := g.R.Intn(4)
	for i := 0; i < n; i++ {
		m[g.hkey()] = g.HValue(depth)
	}
	return m
}

// HRuleish: a map that looks like a rule (or a fact with a `rule` key) with
// some parts replaced by hostile values.
func (g *Gen) HRuleish() map[string]interface{} {
	r := map[string]interface{}{
		"when":   map[string]interface{}{"pattern": map[string]interface{}{"a": "?x"}},
		"action": map[string]interface{}{"code": "1"},
	}
	for i := g.R.Intn(3); i >= 0; i-- {
		switch g.R.Intn(10) {
		case 0:
			r["when"] = g.HValue(2)
		case 1:
			r["when"] = map[string]interface{}{"pattern": g.HValue(2)}
		case 2:
			r["action"] = g.HValue(2)
		case 3:
			r["actions"] = g.HValue(2)
		case 4:
			r["condition"] = g.HValue(3)
		case 5:
			delete(r, "when")
			r["schedule"] = g.HValue(1)
		case 6:
			r[g.hkey()] = g.HValue(2)
		case 7:
			r["expires"] = g.HValue(1)
		case 8:
			r["deleteWith"] = g.HValue(1)
		case 9:
			delete(r, "action")
		}
	}
	return r
}

// HDoc: a hostile top-level document.
func (g *Gen) HDoc() map[string]interface{} {
	switch g.R.Intn(6) {
	case 0:
		return map[string]interface{}{"rule": g.HRuleish()}
	case 1:
		return map[string]interface{}{"rule": g.HValue(2), g.hkey(): g.HValue(1)}
	case 2:
		return g.HRuleish()
	}
	m := g.HMap(2 + g.R.Intn(2))
	if len(m) == 0 && g.R.Intn(2) == 0 {
		m[g.hkey()] = g.HValue(2)
	}
	return m
}

// HId: a hostile id.
func (g *Gen) HId() string {
	switch g.R.Intn(8) {
	case 0:
		return ""
	case 1:
		return HVars[g.R.Intn(len(HVars))]
	case 2:
		return "!x.y"
	case 3:
		return strings.Repeat("i", 1100)
	case 4:
		return "h w&=%"
	}
	return []string{"h1", "h2", "h3"}[g.R.Intn(3)]
}

// Touches reports whether the document has a reserved key, a variable-looking
// string, or depth >= 8 (the non-trivial rule of C13).
func Touches(x interface{}) bool {
	return touches(x, 0)
}

func touches(x interface{}, d int) bool {
	if d >= 8 {
		return true
	}
	switch v := x.(type) {
	case string:
		return strings.HasPrefix(v, "?")
	case map[string]interface{}:
		for k, e := range v {
			if strings.HasPrefix(k, "?") {
				return true
			}
			for _, r := range reserved {
				if k == r {
					return true
				}
			}
			if touches(e, d+1) {
				return true
			}
		}
	case []interface{}:
		for _, e := range v {
			if touches(e, d+1) {
				return true
			}
		}
	}
	return false
}

// PatternSide renames every variable occurrence in x to a fresh name
// ("?a" -> "?v7", "??c" -> "??v8", "?d<1" -> "?v9<1"), so that a hostile
// document used in pattern position has no repeated variable and shares no
// variable name with hostile data (see HVars).  "?" stays anonymous.
func PatternSide(x interface{}, n *int) interface{} {
	ren := func(s string) string {
		if !strings.HasPrefix(s, "?") || s == "?" {
			return s
		}
		*n++
		q := "?"
		rest := s[1:]
		if strings.HasPrefix(rest, "?") {
			q = "??"
			rest = rest[1:]
		}
		suffix := ""
		for _, op := range []string{"<=", ">=", "!=", "<", ">"} {
			if i := strings.Index(rest, op); i >= 0 {
				suffix = rest[i:]
				break
			}
		}
		return q + "v" + itoa(*n) + suffix
	}
	switch v := x.(type) {
	case string:
		return ren(v)
	case map[string]interface{}:
		m := make(map[string]interface{}, len(v))
		for k, e := range v {
			m[ren(k)] = PatternSide(e, n)
		}
		return m
	case []interface{}:
		a := make([]interface{}, len(v))
		for i, e := range v {
			a[i] = PatternSide(e, n)
		}
		return a
	}
	return x
}

func itoa(n int) string {
	if n == 0 {
		return "0"
	}
	s := ""
	for n > 0 {
		s = string(rune('0'+n%10)) + s
		n /= 10
	}
	return s
}
