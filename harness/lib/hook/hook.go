// Package hook drives the verifhook.Point() sites compiled into rulio under
// the build tag `verif`: seeded random delays that widen the window between
// two critical sections, and "park until released" for forced schedules.
// Its state is guarded by its own mutex and never touches rulio state.
package hook

import (
	"hash/fnv"
	"math/rand"
	"runtime"
	"sync"
	"time"

	"github.com/Comcast/rulio/core/verifhook"
)

var (
	mu      sync.Mutex
	rng     *rand.Rand
	prob    float64
	maxNs   int64
	names   map[string]bool
	parked  map[string]*park
	trace   []string
	traceOn bool
	hits    map[string]int
)

type park struct {
	arrived chan struct{}
	release chan struct{}
	used    bool
}

func init() {
	hits = map[string]int{}
	parked = map[string]*park{}
	verifhook.Set(point)
}

// Enabled reports whether rulio was built with the hooks compiled in.
func Enabled() bool { return verifhook.Enabled }

func point(name string) {
	mu.Lock()
	hits[name]++
	if traceOn && len(trace) < 4096 {
		trace = append(trace, name)
	}
	if p, ok := parked[name]; ok && !p.used {
		p.used = true
		mu.Unlock()
		close(p.arrived)
		<-p.release
		return
	}
	var d time.Duration
	yield := false
	if rng != nil && (names == nil || names[name]) && rng.Float64() < prob {
		if maxNs > 0 {
			d = time.Duration(rng.Int63n(maxNs))
		}
		yield = true
	}
	mu.Unlock()
	if d > 0 {
		time.Sleep(d)
	} else if yield {
		runtime.Gosched()
	}
}

// Delays makes every listed point (all points when none is listed) sleep for
// a random time below max with probability p.
func Delays(seed int64, p float64, max time.Duration, only ...string) {
	mu.Lock()
	rng = rand.New(rand.NewSource(seed))
	prob = p
	maxNs = int64(max)
	names = nil
	if len(only) > 0 {
		names = map[string]bool{}
		for _, n := range only {
			names[n] = true
		}
	}
	mu.Unlock()
}

// Off removes delays.
func Off() {
	mu.Lock()
	rng = nil
	mu.Unlock()
}

// Park makes the next goroutine that reaches the named point wait until
// release() is called; arrived is closed when it got there.
func Park(name string) (arrived <-chan struct{}, release func()) {
	p := &park{arrived: make(chan struct{}), release: make(chan struct{})}
	mu.Lock()
	parked[name] = p
	mu.Unlock()
	var once sync.Once
	return p.arrived, func() {
		once.Do(func() {
			close(p.release)
			mu.Lock()
			if parked[name] == p {
				delete(parked, name)
			}
			mu.Unlock()
		})
	}
}

// StartTrace begins recording the order in which points are passed.
func StartTrace() {
	mu.Lock()
	trace = trace[:0]
	traceOn = true
	mu.Unlock()
}

// StopTrace returns a hash of the recorded order and its length.
func StopTrace() (uint64, int) {
	mu.Lock()
	defer mu.Unlock()
	traceOn = false
	h := fnv.New64a()
	for _, n := range trace {
		h.Write([]byte(n))
		h.Write([]byte{0})
	}
	return h.Sum64(), len(trace)
}

// Hits returns how often each point was passed.
func Hits() map[string]int {
	mu.Lock()
	defer mu.Unlock()
	out := map[string]int{}
	for k, v := range hits {
		out[k] = v
	}
	return out
}
