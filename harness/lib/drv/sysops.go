package drv

import (
	"encoding/json"
	"fmt"
	"sort"
	"strings"

	"github.com/Comcast/rulio/core"
	"github.com/Comcast/rulio/sys"

	"verif/lib/ref"
)

// Req is one request against the System API in a normalised form.
type Req struct {
	Op  string `json:"op"`
	Loc string `json:"loc,omitempty"`
	Id  string `json:"id,omitempty"`
	Doc string `json:"doc,omitempty"`
	On  bool   `json:"on,omitempty"`
	// NoInherit makes a search non-inherited (default: inherited).
	NoInherit bool `json:"no_inherit,omitempty"`
}

func eo(err error) string { return "ERR:" + err.Error() }

// SysDo performs the request through sys.System and returns a normalised result.
func SysDo(s *sys.System, r Req) string {
	ctx := Ctx()
	loc := r.Loc
	switch r.Op {
	case "create":
		_, err := s.CreateLocation(ctx, loc)
		if err != nil {
			return eo(err)
		}
		return "ok"
	case "addFact":
		id, err := s.AddFact(ctx, loc, r.Id, r.Doc)
		if err != nil {
			return eo(err)
		}
		return "id=" + id
	case "addRule":
		id, err := s.AddRule(ctx, loc, r.Id, r.Doc)
		if err != nil {
			return eo(err)
		}
		return "id=" + id
	case "remFact":
		if _, err := s.RemFact(ctx, loc, r.Id); err != nil {
			return eo(err)
		}
		return "ok"
	case "remRule":
		if _, err := s.RemRule(ctx, loc, r.Id); err != nil {
			return eo(err)
		}
		return "ok"
	case "enable":
		if err := s.EnableRule(ctx, loc, r.Id, r.On); err != nil {
			return eo(err)
		}
		return "ok"
	case "getFact":
		js, err := s.GetFact(ctx, loc, r.Id)
		if err != nil {
			if strings.Contains(err.Error(), "not found") {
				return "notfound"
			}
			return eo(err)
		}
		var m map[string]interface{}
		json.Unmarshal([]byte(js), &m)
		return ref.Canon(m)
	case "search":
		srs, err := s.SearchFacts(ctx, loc, r.Doc, !r.NoInherit)
		if err != nil {
			return eo(err)
		}
		return strings.Join(NormSearch(srs), ";")
	case "event":
		fr, err := s.ProcessEvent(ctx, loc, r.Doc)
		if err != nil {
			return eo(err)
		}
		vs := []string{}
		for _, v := range fr.Values {
			vs = append(vs, fmt.Sprint(v))
		}
		sort.Strings(vs)
		return strings.Join(vs, ",")
	case "listRules":
		rs, err := s.ListRules(ctx, loc, !r.NoInherit)
		if err != nil {
			return eo(err)
		}
		sort.Strings(rs)
		return strings.Join(rs, ",")
	case "clear":
		if err := s.ClearLocation(ctx, loc); err != nil {
			return eo(err)
		}
		return "ok"
	case "setParents":
		var ps []string
		json.Unmarshal([]byte(r.Doc), &ps)
		if _, err := s.SetParents(ctx, loc, ps); err != nil {
			return eo(err)
		}
		return "ok"
	}
	return "?"
}

// LocDo performs the same request directly on a core.Location.
func LocDo(l *core.Location, r Req) string {
	ctx := Ctx()
	parse := func(s string) core.Map {
		var m map[string]interface{}
		json.Unmarshal([]byte(s), &m)
		return core.Map(m)
	}
	switch r.Op {
	case "create":
		return "ok"
	case "addFact":
		id, err := l.AddFact(ctx, r.Id, parse(r.Doc))
		if err != nil {
			return eo(err)
		}
		return "id=" + id
	case "addRule":
		id, err := l.AddRule(ctx, r.Id, parse(r.Doc))
		if err != nil {
			return eo(err)
		}
		return "id=" + id
	case "remFact":
		if _, err := l.RemFact(ctx, r.Id); err != nil {
			return eo(err)
		}
		return "ok"
	case "remRule":
		if _, err := l.RemRule(ctx, r.Id); err != nil {
			return eo(err)
		}
		return "ok"
	case "enable":
		if err := l.EnableRule(ctx, r.Id, r.On); err != nil {
			return eo(err)
		}
		return "ok"
	case "getFact":
		m, err := l.GetFact(ctx, r.Id)
		if err != nil {
			if _, nf := err.(*core.NotFoundError); nf {
				return "notfound"
			}
			return eo(err)
		}
		return ref.Canon(map[string]interface{}(m))
	case "search":
		srs, err := l.SearchFacts(ctx, parse(r.Doc), !r.NoInherit)
		if err != nil {
			return eo(err)
		}
		return strings.Join(NormSearch(srs), ";")
	case "event":
		fr, cond := l.ProcessEvent(ctx, parse(r.Doc))
		if cond != nil {
			return "ERR:" + cond.Msg
		}
		vs := []string{}
		for _, v := range fr.Values {
			vs = append(vs, fmt.Sprint(v))
		}
		sort.Strings(vs)
		return strings.Join(vs, ",")
	case "listRules":
		rs, err := l.ListRules(ctx, !r.NoInherit)
		if err != nil {
			return eo(err)
		}
		sort.Strings(rs)
		return strings.Join(rs, ",")
	case "clear":
		if err := l.Clear(ctx); err != nil {
			return eo(err)
		}
		return "ok"
	}
	return "?"
}
