// Package drv holds small helpers for driving the real rulio from monitors.
package drv

import (
	"fmt"
	"runtime/debug"
	"sort"
	"time"

	"github.com/Comcast/rulio/core"

	"verif/lib/ref"
)

func init() {
	// Configure process-wide rulio settings once, before any goroutine uses them
	// (DESIGN §6.6): no log output, runaway recursion dies fast.
	core.DefaultLogger = core.BenchLogger
	core.DefaultVerbosity = core.NOTHING
	debug.SetMaxStack(64 << 20)
}

// Ctx makes a fresh, quiet request context.
func Ctx() *core.Context {
	ctx := core.NewContext("verif")
	ctx.Verbosity = core.NOTHING
	ctx.LogAccumulatorLevel = core.NOTHING
	ctx.Logger = core.BenchLogger
	return ctx
}

// NewState builds a state of the given kind ("indexed" or "linear") over store.
func NewState(ctx *core.Context, kind, name string, store core.Storage) (core.State, error) {
	switch kind {
	case "indexed":
		return core.NewIndexedState(ctx, name, store)
	case "linear":
		return core.NewLinearState(ctx, name, store)
	}
	return nil, fmt.Errorf("unknown state kind %q", kind)
}

// NewLoc builds (and loads) a location of the given state kind over store.
func NewLoc(name, kind string, store core.Storage) (*core.Location, error) {
	ctx := Ctx()
	st, err := NewState(ctx, kind, name, store)
	if err != nil {
		return nil, err
	}
	loc, err := core.NewLocation(ctx, name, st, nil)
	if err != nil {
		return nil, err
	}
	return loc, nil
}

// MustMem returns a fresh in-memory storage.
func MustMem() *core.MemStorage {
	s, err := core.NewMemStorage(Ctx())
	if err != nil {
		panic(err)
	}
	return s
}

var Kinds = []string{"indexed", "linear"}

// Found is a normalised search hit.
type Found struct {
	Id   string
	Bss  []string // canonical binding sets, sorted
	Fact string   // canonical JSON of the returned fact
}

// NormSearch turns SearchResults into a sorted list "id|bindings".
func NormSearch(srs *core.SearchResults) []string {
	if srs == nil {
		return nil
	}
	out := []string{}
	for _, f := range srs.Found {
		bs := make([]ref.B, len(f.Bindingss))
		for i, b := range f.Bindingss {
			bs[i] = ref.B(b)
		}
		for _, c := range ref.CanonSet(bs) {
			out = append(out, f.Id+"|"+c)
		}
	}
	sort.Strings(out)
	return out
}

// Guard runs fn in a goroutine and reports whether it returned within d.
// A panic inside fn is returned as text.
func Guard(d time.Duration, fn func()) (returned bool, panicked string) {
	done := make(chan string, 1)
	go func() {
		defer func() {
			if x := recover(); x != nil {
				done <- fmt.Sprintf("panic: %v\n%s", x, debug.Stack())
				return
			}
		}()
		fn()
		done <- ""
	}()
	select {
	case p := <-done:
		return true, p
	case <-time.After(d):
		return false, ""
	}
}

// ErrStr renders an error ("" for nil).
func ErrStr(err error) string {
	if err == nil {
		return ""
	}
	return err.Error()
}

// SysOpts configures NewSys.
type SysOpts struct {
	Linear         bool
	TTL            time.Duration // sys.Forever / sys.Never / finite
	CheckExistence bool
	MaxFacts       int
	// Timing: keep the engine's timers on (off by default in the harness).
	Timing bool
	// CodeProps: extra Env properties for every script (the locations' default control).
	CodeProps map[string]interface{}
}
