package drv

import (
	"github.com/Comcast/rulio/core"
	"github.com/Comcast/rulio/cron"
	"github.com/Comcast/rulio/sys"
)

// NewSys builds an engine over in-memory storage from a prepared context.
// The context is configured before it is handed over and never written
// afterwards (DESIGN §6.6).
func NewSys(o SysOpts, cr cron.Cronner) (*sys.System, error) {
	ctx := Ctx()
	conf := sys.ExampleConfig()
	conf.UnindexedState = o.Linear
	conf.CheckExistence = o.CheckExistence
	cont := sys.ExampleSystemControl()
	cont.Timing = o.Timing
	cont.LocationTTL = o.TTL
	max := o.MaxFacts
	if max == 0 {
		max = 100000
	}
	cont.DefaultLocControl = &core.Control{MaxFacts: max, Verbosity: core.NOTHING, NoTiming: !o.Timing, CodeProps: o.CodeProps}
	return sys.NewSystem(ctx, *conf, *cont, cr)
}
