// Package store wraps a core.Storage for the monitors: it counts calls, can
// make the k-th call fail, takes a deep snapshot of an in-memory back end
// after every successful write (crash points), can kill the process right
// after the k-th write (Bolt crash points), and keeps a checksum of every Pair
// handed out by Load that is re-verified after later writes (aliasing canary).
package store

import (
	"time"
	"errors"
	"fmt"
	"os"
	"sync"
	"syscall"

	"github.com/Comcast/rulio/core"
)

var ErrInjected = errors.New("injected storage failure")

type Call struct {
	N      int    `json:"n"`
	Method string `json:"method"`
	Loc    string `json:"loc"`
	Key    string `json:"key,omitempty"`
	Write  bool   `json:"write"`
	Failed bool   `json:"failed,omitempty"`
}

type handed struct {
	k, v       []byte // the slices handed out
	kc, vc     string // their content when handed out
	afterWrite int
}

type Wrap struct {
	mu    sync.Mutex
	Inner core.Storage

	Calls  []Call
	Writes int

	// FailAt: the call with this number (1-based, over all methods) fails.
	FailAt int
	// KillAtWrite: SIGKILL this process right after the write with this number succeeded.
	KillAtWrite int
	// OnWrite is called after each successful write with its number.
	OnWrite func(n int)
	// Slow makes the named method ("Add", "Remove", "Clear", ...) sleep before it reaches
	// the inner storage (a slow back end); set before use, never changed afterwards.
	Slow map[string]time.Duration

	// Snapshots[i] is the content of the inner MemStorage after write i+1.
	Snapshots []map[string]map[string]string
	snapshot  bool

	handedOut    []handed
	AliasFaults  []string
	checkAliases bool
}

func New(inner core.Storage) *Wrap { return &Wrap{Inner: inner} }

// WithSnapshots turns on deep snapshots after every write (inner must be a *core.MemStorage).
func (w *Wrap) WithSnapshots() *Wrap { w.snapshot = true; return w }

// WithAliasCanary turns on re-verification of pairs handed out by Load.
func (w *Wrap) WithAliasCanary() *Wrap { w.checkAliases = true; return w }

func CopyState(m map[string]map[string]string) map[string]map[string]string {
	out := make(map[string]map[string]string, len(m))
	for l, kv := range m {
		c := make(map[string]string, len(kv))
		for k, v := range kv {
			c[k] = v
		}
		out[l] = c
	}
	return out
}

// MemFrom builds a fresh MemStorage holding a copy of the given content.
func MemFrom(content map[string]map[string]string) *core.MemStorage {
	ms, _ := core.NewMemStorage(nil)
	ms.SetState(nil, CopyState(content))
	return ms
}

func (w *Wrap) begin(method, loc, key string, write bool) (int, error) {
	if d := w.Slow[method]; d > 0 {
		time.Sleep(d)
	}
	w.mu.Lock()
	defer w.mu.Unlock()
	n := len(w.Calls) + 1
	c := Call{N: n, Method: method, Loc: loc, Key: key, Write: write}
	if w.FailAt == n {
		c.Failed = true
		w.Calls = append(w.Calls, c)
		return n, ErrInjected
	}
	w.Calls = append(w.Calls, c)
	return n, nil
}

func (w *Wrap) wrote() {
	w.mu.Lock()
	w.Writes++
	n := w.Writes
	if w.snapshot {
		if ms, ok := w.Inner.(*core.MemStorage); ok {
			ms.Lock()
			w.Snapshots = append(w.Snapshots, CopyState(ms.State(nil)))
			ms.Unlock()
		}
	}
	if w.checkAliases {
		for _, h := range w.handedOut {
			if string(h.k) != h.kc || string(h.v) != h.vc {
				w.AliasFaults = append(w.AliasFaults, fmt.Sprintf("pair %q handed out by Load changed after write %d: %q -> %q", h.kc, n, h.vc, string(h.v)))
			}
		}
	}
	cb := w.OnWrite
	kill := w.KillAtWrite == n
	w.mu.Unlock()
	if cb != nil {
		cb(n)
	}
	if kill {
		syscall.Kill(os.Getpid(), syscall.SIGKILL)
		select {}
	}
}

func (w *Wrap) Load(ctx *core.Context, loc string) ([]core.Pair, error) {
	if _, err := w.begin("Load", loc, "", false); err != nil {
		return nil, err
	}
	ps, err := w.Inner.Load(ctx, loc)
	if err == nil && w.checkAliases {
		w.mu.Lock()
		for _, p := range ps {
			w.handedOut = append(w.handedOut, handed{k: p.K, v: p.V, kc: string(p.K), vc: string(p.V), afterWrite: w.Writes})
		}
		w.mu.Unlock()
	}
	return ps, err
}

func (w *Wrap) Add(ctx *core.Context, loc string, data *core.Pair) error {
	if _, err := w.begin("Add", loc, string(data.K), true); err != nil {
		return err
	}
	err := w.Inner.Add(ctx, loc, data)
	if err == nil {
		w.wrote()
	}
	return err
}

func (w *Wrap) Remove(ctx *core.Context, loc string, k []byte) (int64, error) {
	if _, err := w.begin("Remove", loc, string(k), true); err != nil {
		return 0, err
	}
	n, err := w.Inner.Remove(ctx, loc, k)
	if err == nil {
		w.wrote()
	}
	return n, err
}

func (w *Wrap) Clear(ctx *core.Context, loc string) (int64, error) {
	if _, err := w.begin("Clear", loc, "", true); err != nil {
		return 0, err
	}
	n, err := w.Inner.Clear(ctx, loc)
	if err == nil {
		w.wrote()
	}
	return n, err
}

func (w *Wrap) Delete(ctx *core.Context, loc string) error {
	if _, err := w.begin("Delete", loc, "", true); err != nil {
		return err
	}
	err := w.Inner.Delete(ctx, loc)
	if err == nil {
		w.wrote()
	}
	return err
}

func (w *Wrap) GetStats(ctx *core.Context, loc string) (core.StorageStats, error) {
	return w.Inner.GetStats(ctx, loc)
}
func (w *Wrap) Close(ctx *core.Context) error  { return w.Inner.Close(ctx) }
func (w *Wrap) Health(ctx *core.Context) error { return w.Inner.Health(ctx) }

// NCalls returns the number of calls seen so far.
func (w *Wrap) NCalls() int {
	w.mu.Lock()
	defer w.mu.Unlock()
	return len(w.Calls)
}

// CallsCopy returns a copy of the call log.
func (w *Wrap) CallsCopy() []Call {
	w.mu.Lock()
	defer w.mu.Unlock()
	return append([]Call{}, w.Calls...)
}
