package ref

import "sort"

// Q is a query tree in its JSON form.
type Q = map[string]interface{}

// CodeSem gives the meaning of one code leaf of the generated family:
// keep the binding? and which extra bindings (already '?'-prefixed) to merge.
type CodeSem func(th B) (bool, B)

// Codes is the family of code leaves with known value (DESIGN §5 C03).  The
// scripts only inspect string bindings (otto presents a JSON null binding as
// undefined, so null is avoided).
var Codes = map[string]CodeSem{
	"true":      func(B) (bool, B) { return true, nil },
	"false":     func(B) (bool, B) { return false, nil },
	"null":      func(B) (bool, B) { return false, nil },
	"undefined": func(B) (bool, B) { return false, nil },
	"0":         func(B) (bool, B) { return true, nil },
	"''":        func(B) (bool, B) { return true, nil },
	"({})":      func(B) (bool, B) { return true, nil },
	"({z:'q'})": func(B) (bool, B) { return true, B{"?z": "q"} },
	"(typeof x != 'undefined') && x === 's1'": func(th B) (bool, B) { v, ok := th["?x"]; return ok && v == "s1", nil },
	"(typeof y == 'string') ? ({w:y}) : null": func(th B) (bool, B) {
		v, ok := th["?y"].(string)
		if !ok {
			return false, nil
		}
		return true, B{"?w": v}
	},
	// returned objects whose values are numbers, arrays and maps (merged into the binding, the returned value wins)
	"({x:1})":           func(B) (bool, B) { return true, B{"?x": 1.0} },
	"({y:[-1]})":        func(B) (bool, B) { return true, B{"?y": []interface{}{-1.0}} },
	"({x:['s1','x']})":  func(B) (bool, B) { return true, B{"?x": []interface{}{"s1", "x"}} },
	"({y:{k:1,m:[2]}})": func(B) (bool, B) { return true, B{"?y": map[string]interface{}{"k": 1.0, "m": []interface{}{2.0}}} },
	"(typeof x == 'string' && typeof y == 'string') ? (x < y) : false": func(th B) (bool, B) {
		x, ok1 := th["?x"].(string)
		y, ok2 := th["?y"].(string)
		return ok1 && ok2 && x < y, nil
	},
}

func CodeNames() []string {
	ks := make([]string, 0, len(Codes))
	for k := range Codes {
		ks = append(ks, k)
	}
	sort.Strings(ks)
	return ks
}

// Subst replaces bound variables of a pattern by their values.
func Subst(p interface{}, th B) interface{} {
	switch v := p.(type) {
	case string:
		if IsVar(v) {
			if b, ok := th[v]; ok {
				return b
			}
		}
		return v
	case map[string]interface{}:
		m := make(map[string]interface{}, len(v))
		for k, e := range v {
			if IsVar(k) {
				// a bound variable in key position stands for its value as well
				if b, ok := th[k]; ok {
					if ks, ok := b.(string); ok {
						k = ks
					} else {
						k = "\x00no property has this name: " + Canon(b)
					}
				}
			}
			m[k] = Subst(e, th)
		}
		return m
	case []interface{}:
		a := make([]interface{}, len(v))
		for i, e := range v {
			a[i] = Subst(e, th)
		}
		return a
	}
	return p
}

// Eval is the reference query evaluator, written from the property statement.
// facts: every fact visible to the location (own and inherited), as a list.
func Eval(q Q, facts []map[string]interface{}, in []B) []B {
	if len(q) == 0 {
		return in
	}
	if c, ok := q["code"]; ok {
		var out []B
		sem := Codes[c.(string)]
		for _, th := range in {
			keep, extra := sem(th)
			if !keep {
				continue
			}
			if extra != nil {
				n := cp(th)
				for k, v := range extra {
					n[k] = v
				}
				out = append(out, n)
			} else {
				out = append(out, th)
			}
		}
		return out
	}
	if p, ok := q["pattern"]; ok {
		var out []B
		for _, th := range in {
			bound := Subst(Norm(p), th)
			for _, f := range facts {
				for _, more := range Match(bound, f, B{}) {
					n := cp(th)
					for k, v := range more {
						n[k] = v
					}
					out = append(out, n)
				}
			}
		}
		return out
	}
	if a, ok := q["and"]; ok {
		cur := in
		for _, s := range a.([]interface{}) {
			cur = Eval(s.(Q), facts, cur)
		}
		return cur
	}
	if o, ok := q["or"]; ok {
		sc, _ := q["shortCircuit"].(bool)
		var out []B
		for _, th := range in {
			for _, s := range o.([]interface{}) {
				more := Eval(s.(Q), facts, []B{th})
				out = append(out, more...)
				if sc && len(more) > 0 {
					break
				}
			}
		}
		return out
	}
	if n, ok := q["not"]; ok {
		var out []B
		for _, th := range in {
			if len(Eval(n.(Q), facts, []B{th})) == 0 {
				out = append(out, th)
			}
		}
		return out
	}
	panic("ref.Eval: bad query")
}

// Multiset renders bindings as a sorted list with repetitions.
func Multiset(bs []B) []string {
	out := make([]string, 0, len(bs))
	for _, b := range bs {
		out = append(out, Canon(Unordered(map[string]interface{}(b))))
	}
	sort.Strings(out)
	return out
}
