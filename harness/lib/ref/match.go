// Package ref holds the executable reference models the monitors compare the
// real rulio against.  Nothing here shares code with rulio or with sheens.
package ref

import (
	"encoding/json"
	"fmt"
	"reflect"
	"sort"
	"strings"
)

// B is one set of variable bindings.
type B = map[string]interface{}

func IsVar(s string) bool { return strings.HasPrefix(s, "?") }

// Norm deep-copies x into plain JSON types (float64 numbers,
// map[string]interface{}, []interface{}).
func Norm(x interface{}) interface{} {
	switch v := x.(type) {
	case int:
		return float64(v)
	case int64:
		return float64(v)
	case int32:
		return float64(v)
	case float32:
		return float64(v)
	case map[string]interface{}:
		m := make(map[string]interface{}, len(v))
		for k, e := range v {
			m[k] = Norm(e)
		}
		return m
	case []interface{}:
		a := make([]interface{}, len(v))
		for i, e := range v {
			a[i] = Norm(e)
		}
		return a
	case []string:
		a := make([]interface{}, len(v))
		for i, e := range v {
			a[i] = e
		}
		return a
	case []int:
		a := make([]interface{}, len(v))
		for i, e := range v {
			a[i] = float64(e)
		}
		return a
	case []map[string]interface{}:
		a := make([]interface{}, len(v))
		for i, e := range v {
			a[i] = Norm(e)
		}
		return a
	}
	rv := reflect.ValueOf(x)
	if rv.IsValid() {
		switch rv.Kind() {
		case reflect.Map:
			if rv.Type().Key().Kind() == reflect.String {
				m := make(map[string]interface{}, rv.Len())
				for _, k := range rv.MapKeys() {
					m[k.String()] = Norm(rv.MapIndex(k).Interface())
				}
				return m
			}
		case reflect.Slice:
			a := make([]interface{}, rv.Len())
			for i := range a {
				a[i] = Norm(rv.Index(i).Interface())
			}
			return a
		}
	}
	return x
}

func cp(b B) B {
	n := make(B, len(b)+1)
	for k, v := range b {
		n[k] = v
	}
	return n
}

func bindVar(v string, d interface{}, th B) []B {
	if v == "?" {
		return []B{th}
	}
	if old, ok := th[v]; ok {
		if reflect.DeepEqual(Norm(old), Norm(d)) {
			return []B{th}
		}
		return nil
	}
	n := cp(th)
	n[v] = d
	return []B{n}
}

// Match enumerates every way of laying pattern p over datum d as a partial
// match, starting from bindings th.  Maps may have extra keys; arrays are
// sets, pattern elements go to distinct data elements; a variable binds the
// value at its position; a repeated variable needs deep-equal values; a
// property variable is allowed only as the sole key of a map.
func Match(p, d interface{}, th B) []B {
	return match(Norm(p), Norm(d), th)
}

func match(p, d interface{}, th B) []B {
	switch pv := p.(type) {
	case nil:
		if d == nil {
			return []B{th}
		}
		return nil
	case bool:
		if dv, ok := d.(bool); ok && dv == pv {
			return []B{th}
		}
		return nil
	case float64:
		if dv, ok := d.(float64); ok && dv == pv {
			return []B{th}
		}
		return nil
	case string:
		if IsVar(pv) {
			return bindVar(pv, d, th)
		}
		if dv, ok := d.(string); ok && dv == pv {
			return []B{th}
		}
		return nil
	case map[string]interface{}:
		dm, ok := d.(map[string]interface{})
		if !ok {
			return nil
		}
		if len(pv) == 0 {
			return []B{th}
		}
		keys := make([]string, 0, len(pv))
		for k := range pv {
			keys = append(keys, k)
		}
		sort.Strings(keys)
		if len(keys) == 1 && IsVar(keys[0]) {
			var acc []B
			dks := make([]string, 0, len(dm))
			for k := range dm {
				dks = append(dks, k)
			}
			sort.Strings(dks)
			for _, fk := range dks {
				for _, t1 := range bindVar(keys[0], fk, th) {
					acc = append(acc, match(pv[keys[0]], dm[fk], t1)...)
				}
			}
			return acc
		}
		res := []B{th}
		for _, k := range keys {
			dv, have := dm[k]
			if !have {
				if ov, ok := pv[k].(string); ok && strings.HasPrefix(ov, "??") {
					continue // the matcher's optional variable: the key may be absent (then nothing is bound)
				}
				return nil
			}
			var next []B
			for _, r := range res {
				next = append(next, match(pv[k], dv, r)...)
			}
			res = next
			if len(res) == 0 {
				return nil
			}
		}
		return res
	case []interface{}:
		da, ok := d.([]interface{})
		if !ok {
			return nil
		}
		var elems []interface{}
		seen := map[string]bool{}
		for _, e := range da {
			switch e.(type) {
			case map[string]interface{}, []interface{}:
				elems = append(elems, e)
			default:
				k := Canon(e)
				if !seen[k] {
					seen[k] = true
					elems = append(elems, e)
				}
			}
		}
		var rec func(i int, used uint64, th B) []B
		rec = func(i int, used uint64, th B) []B {
			if i == len(pv) {
				return []B{th}
			}
			var acc []B
			for j, e := range elems {
				if used&(1<<uint(j)) != 0 {
					continue
				}
				for _, t1 := range match(pv[i], e, th) {
					acc = append(acc, rec(i+1, used|(1<<uint(j)), t1)...)
				}
			}
			return acc
		}
		return rec(0, 0, th)
	}
	panic(fmt.Sprintf("ref: unknown pattern type %T", p))
}

// Canon is the canonical JSON of x (keys sorted by encoding/json).
func Canon(x interface{}) string {
	b, err := json.Marshal(Norm(x))
	if err != nil {
		return fmt.Sprintf("ERR %v", x)
	}
	return string(b)
}

// CanonSet turns a list of bindings into a sorted set of canonical strings.
func CanonSet(bs []B) []string {
	set := map[string]bool{}
	for _, b := range bs {
		set[Canon(map[string]interface{}(b))] = true
	}
	out := make([]string, 0, len(set))
	for k := range set {
		out = append(out, k)
	}
	sort.Strings(out)
	return out
}

// SameSet compares two sorted string sets.
func SameSet(a, b []string) bool {
	if len(a) != len(b) {
		return false
	}
	for i := range a {
		if a[i] != b[i] {
			return false
		}
	}
	return true
}

// Clone deep-copies a JSON value.
func Clone(x interface{}) interface{} { return Norm(x) }

// CloneMap deep-copies a JSON object.
func CloneMap(m map[string]interface{}) map[string]interface{} {
	if m == nil {
		return nil
	}
	return Norm(m).(map[string]interface{})
}

// ---- shape predicates used by classifiers ----

// HasEmptyContainer: x contains {} or [] somewhere (or is one).
func HasEmptyContainer(x interface{}) bool {
	switch v := x.(type) {
	case map[string]interface{}:
		if len(v) == 0 {
			return true
		}
		for _, e := range v {
			if HasEmptyContainer(e) {
				return true
			}
		}
	case []interface{}:
		if len(v) == 0 {
			return true
		}
		for _, e := range v {
			if HasEmptyContainer(e) {
				return true
			}
		}
	}
	return false
}

// HasMixedArray: x contains an array holding both a variable and a non-variable element.
func HasMixedArray(x interface{}) bool {
	switch v := x.(type) {
	case map[string]interface{}:
		for _, e := range v {
			if HasMixedArray(e) {
				return true
			}
		}
	case []interface{}:
		vars, consts := 0, 0
		for _, e := range v {
			if s, ok := e.(string); ok && IsVar(s) {
				vars++
			} else {
				consts++
			}
			if HasMixedArray(e) {
				return true
			}
		}
		return vars > 0 && consts > 0
	}
	return false
}

// HasUnsortableArray: x contains an array that rulio's pattern index cannot
// sort: two or more maps, or elements of different scalar kinds, or nested arrays.
func HasUnsortableArray(x interface{}) bool {
	switch v := x.(type) {
	case map[string]interface{}:
		for _, e := range v {
			if HasUnsortableArray(e) {
				return true
			}
		}
	case []interface{}:
		kinds := map[string]int{}
		for _, e := range v {
			switch e.(type) {
			case map[string]interface{}:
				kinds["map"]++
			case []interface{}:
				kinds["arr"]++
			case string:
				kinds["str"]++
			case float64:
				kinds["num"]++
			case bool:
				kinds["bool"]++
			case nil:
				kinds["nil"]++
			}
			if HasUnsortableArray(e) {
				return true
			}
		}
		if len(kinds) > 1 || kinds["map"] > 1 || kinds["arr"] > 0 || kinds["nil"] > 0 || kinds["bool"] > 0 {
			return true
		}
	}
	return false
}

// VarsOf returns the variables of a pattern with their occurrence counts.
func VarsOf(x interface{}, acc map[string]int) map[string]int {
	if acc == nil {
		acc = map[string]int{}
	}
	switch v := x.(type) {
	case string:
		if IsVar(v) {
			acc[v]++
		}
	case map[string]interface{}:
		for k, e := range v {
			if IsVar(k) {
				acc[k]++
			}
			VarsOf(e, acc)
		}
	case []interface{}:
		for _, e := range v {
			VarsOf(e, acc)
		}
	}
	return acc
}

// Depth of nesting (scalar = 0).
func Depth(x interface{}) int {
	d := 0
	switch v := x.(type) {
	case map[string]interface{}:
		for _, e := range v {
			if n := Depth(e) + 1; n > d {
				d = n
			}
		}
		if d == 0 {
			d = 1
		}
	case []interface{}:
		for _, e := range v {
			if n := Depth(e) + 1; n > d {
				d = n
			}
		}
		if d == 0 {
			d = 1
		}
	}
	return d
}

// RepeatedVarOnStructure: some variable occurs ≥2 times in p and at least one
// binding in any of bss (or any structured value in d) is a map/array – the
// sheens repeated-variable shape (known finding C05).
func RepeatedVarStructured(p interface{}, d interface{}) bool {
	rep := false
	for _, n := range VarsOf(Norm(p), nil) {
		if n >= 2 {
			rep = true
		}
	}
	if !rep {
		return false
	}
	return hasStructure(Norm(d))
}

func hasStructure(d interface{}) bool {
	switch v := d.(type) {
	case map[string]interface{}:
		for _, e := range v {
			switch e.(type) {
			case map[string]interface{}, []interface{}:
				return true
			}
		}
	case []interface{}:
		for _, e := range v {
			switch e.(type) {
			case map[string]interface{}, []interface{}:
				return true
			}
			_ = e
		}
	}
	return false
}

// MatchLoose is the relaxed model behind the known finding
// "repeated-var-structured": sheens compares the occurrences of a repeated
// variable by partial matching in an order that depends on Go map iteration,
// which is not an equivalence.  MatchLoose therefore over-approximates every
// such order: the occurrences of a repeated (or pre-bound) variable are
// matched independently, and the variable may be reported with the value of
// any of its occurrences.
func MatchLoose(p, d interface{}, th B) []B {
	pn := Norm(p)
	counts := VarsOf(pn, nil)
	rep := map[string]bool{}
	for v, n := range counts {
		if v == "?" {
			continue
		}
		if _, pre := th[v]; n >= 2 || pre {
			rep[v] = true
		}
	}
	if len(rep) == 0 {
		return match(pn, Norm(d), th)
	}
	occ := map[string]int{}
	var ren func(x interface{}) interface{}
	name := func(v string) string {
		occ[v]++
		return fmt.Sprintf("%s\x00%d", v, occ[v])
	}
	ren = func(x interface{}) interface{} {
		switch v := x.(type) {
		case string:
			if rep[v] {
				return name(v)
			}
			return v
		case map[string]interface{}:
			m := make(map[string]interface{}, len(v))
			ks := make([]string, 0, len(v))
			for k := range v {
				ks = append(ks, k)
			}
			sort.Strings(ks)
			for _, k := range ks {
				kk := k
				if rep[k] {
					kk = name(k)
				}
				m[kk] = ren(v[k])
			}
			return m
		case []interface{}:
			a := make([]interface{}, len(v))
			for i, e := range v {
				a[i] = ren(e)
			}
			return a
		}
		return x
	}
	p2 := ren(pn)
	th2 := B{}
	for k, v := range th {
		if !rep[k] {
			th2[k] = v
		}
	}
	var out []B
	for _, sol := range match(p2, Norm(d), th2) {
		base := B{}
		cands := map[string][]interface{}{}
		for k, v := range sol {
			if i := strings.Index(k, "\x00"); i >= 0 {
				cands[k[:i]] = append(cands[k[:i]], v)
			} else {
				base[k] = v
			}
		}
		for v := range rep {
			if pre, ok := th[v]; ok {
				cands[v] = append(cands[v], pre)
			}
		}
		vars := make([]string, 0, len(cands))
		for v := range cands {
			vars = append(vars, v)
		}
		sort.Strings(vars)
		var expand func(i int, cur B)
		expand = func(i int, cur B) {
			if len(out) > 4096 {
				return
			}
			if i == len(vars) {
				out = append(out, cp(cur))
				return
			}
			for _, c := range cands[vars[i]] {
				cur[vars[i]] = c
				expand(i+1, cur)
			}
			delete(cur, vars[i])
		}
		expand(0, cp(base))
	}
	return out
}

// Subset reports a ⊆ b for sorted string sets.
func Subset(a, b []string) bool {
	m := map[string]bool{}
	for _, s := range b {
		m[s] = true
	}
	for _, s := range a {
		if !m[s] {
			return false
		}
	}
	return true
}

// HasRepeatedVar: some variable occurs at least twice in p, or occurs in p and in the initial bindings.
func HasRepeatedVar(p interface{}, initial B) bool {
	for v, n := range VarsOf(Norm(p), nil) {
		if n >= 2 {
			return true
		}
		if _, ok := initial[v]; ok {
			return true
		}
	}
	return false
}

// Unordered returns x with every array sorted by the canonical JSON of its
// elements (arrays are sets), for order-insensitive comparison of bindings.
func Unordered(x interface{}) interface{} {
	switch v := Norm(x).(type) {
	case map[string]interface{}:
		for k, e := range v {
			v[k] = Unordered(e)
		}
		return v
	case []interface{}:
		for i, e := range v {
			v[i] = Unordered(e)
		}
		sort.Slice(v, func(i, j int) bool { return Canon(v[i]) < Canon(v[j]) })
		return v
	default:
		return v
	}
}

// CanonSetU is CanonSet with arrays compared as sets.
func CanonSetU(bs []B) []string {
	set := map[string]bool{}
	for _, b := range bs {
		set[Canon(Unordered(map[string]interface{}(b)))] = true
	}
	out := make([]string, 0, len(set))
	for k := range set {
		out = append(out, k)
	}
	sort.Strings(out)
	return out
}

// HasOptionalVar: some map value of the pattern is the matcher's optional variable ("??name").
func HasOptionalVar(x interface{}) bool {
	switch v := x.(type) {
	case map[string]interface{}:
		for _, e := range v {
			if s, ok := e.(string); ok && strings.HasPrefix(s, "??") {
				return true
			}
			if HasOptionalVar(e) {
				return true
			}
		}
	case []interface{}:
		for _, e := range v {
			if HasOptionalVar(e) {
				return true
			}
		}
	}
	return false
}
