// Package rep is the reporting side of a monitor child process: it counts
// cases, remembers distinct non-trivial case hashes, collects violations with
// their classifier key and witness, keeps a few samples, journals the input
// about to be tried (so a process-fatal failure can be attributed) and writes
// one JSON report per batch that the driver (cmd/vcheck) aggregates.
//
// A child is configured through the environment so that plain binaries and
// overlay-injected `go test` binaries are driven the same way:
//
//	VERIF_OUT    directory for report/journal files (required)
//	VERIF_BATCH  batch number (default 0)
//	VERIF_SEED   base seed (default 1)
//	VERIF_TIER   quick | thorough
//	VERIF_STAGE  stage name (free text chosen by the driver)
//	VERIF_REPLAY path of a witness file to re-execute (optional)
package rep

import (
	"encoding/json"
	"fmt"
	"hash/fnv"
	"io/ioutil"
	"os"
	"path/filepath"
	"strconv"
	"sync"
	"time"
)

// Violation is one observed refutation of the property.
type Violation struct {
	// Key names the classifier predicate that accepted this witness ("" when
	// no predicate of a known finding accepts it).
	Key     string      `json:"key"`
	What    string      `json:"what"`
	Witness interface{} `json:"witness"`
}

// Report is what one child writes.
type Report struct {
	Stage       string                 `json:"stage"`
	Batch       int                    `json:"batch"`
	Seed        int64                  `json:"seed"`
	Tier        string                 `json:"tier"`
	Evaluations int                    `json:"evaluations"`
	NonTrivial  []string               `json:"nontrivial_hashes"`
	Violations  []Violation            `json:"violations"`
	Samples     []interface{}          `json:"samples"`
	Counters    map[string]int         `json:"counters"`
	Notes       map[string]interface{} `json:"notes"`
	Incon       int                    `json:"inconclusive"`
	Done        bool                   `json:"done"`
	WallS       float64                `json:"wall_s"`

	mu      sync.Mutex
	nt      map[uint64]struct{}
	vcount  map[string]int
	journal *os.File
	out     string
	start   time.Time
	maxSamp int
}

// Env describes how the child was started.
type Env struct {
	Out, Tier, Stage, Replay string
	Batch                    int
	Seed                     int64
}

func GetEnv() Env {
	e := Env{Out: os.Getenv("VERIF_OUT"), Tier: os.Getenv("VERIF_TIER"), Stage: os.Getenv("VERIF_STAGE"), Replay: os.Getenv("VERIF_REPLAY")}
	if e.Tier == "" {
		e.Tier = "quick"
	}
	e.Batch, _ = strconv.Atoi(os.Getenv("VERIF_BATCH"))
	s, err := strconv.ParseInt(os.Getenv("VERIF_SEED"), 10, 64)
	if err != nil {
		s = 1
	}
	e.Seed = s
	if e.Out == "" {
		e.Out = os.TempDir()
	}
	return e
}

// Thorough reports whether the thorough tier was requested.
func (e Env) Thorough() bool { return e.Tier == "thorough" }

// Pick returns q for quick and t for thorough.
func (e Env) Pick(q, t int) int {
	if e.Thorough() {
		return t
	}
	return q
}

// BatchSeed mixes base seed and batch number into a PRNG seed.
func (e Env) BatchSeed() int64 {
	return e.Seed*1000003 + int64(e.Batch)*7919 + 17
}

func New(e Env) *Report {
	r := &Report{Stage: e.Stage, Batch: e.Batch, Seed: e.Seed, Tier: e.Tier,
		Counters: map[string]int{}, Notes: map[string]interface{}{},
		nt: map[uint64]struct{}{}, vcount: map[string]int{}, out: e.Out, start: time.Now(), maxSamp: 4}
	jf, err := os.OpenFile(filepath.Join(e.Out, fmt.Sprintf("journal-%s-%d.jsonl", e.Stage, e.Batch)), os.O_CREATE|os.O_WRONLY|os.O_TRUNC, 0644)
	if err == nil {
		r.journal = jf
	}
	return r
}

func hash(s string) uint64 {
	h := fnv.New64a()
	h.Write([]byte(s))
	return h.Sum64()
}

// Case records one judged case; canon identifies it for distinct counting.
func (r *Report) Case(nontrivial bool, canon string) {
	r.mu.Lock()
	r.Evaluations++
	if nontrivial {
		r.nt[hash(canon)] = struct{}{}
	}
	r.mu.Unlock()
}

// Inconclusive records a case that could not be judged.
func (r *Report) Inconclusive(why string) {
	r.mu.Lock()
	r.Incon++
	r.Counters["inconclusive:"+why]++
	r.mu.Unlock()
}

func (r *Report) Count(name string, n int) {
	r.mu.Lock()
	r.Counters[name] += n
	r.mu.Unlock()
}

func (r *Report) Note(name string, v interface{}) {
	r.mu.Lock()
	r.Notes[name] = v
	r.mu.Unlock()
}

// Sample keeps the first few samples offered.
func (r *Report) Sample(x interface{}) {
	r.mu.Lock()
	if len(r.Samples) < r.maxSamp {
		r.Samples = append(r.Samples, x)
	}
	r.mu.Unlock()
}

// WantSample says whether another sample would be kept.
func (r *Report) WantSample() bool {
	r.mu.Lock()
	defer r.mu.Unlock()
	return len(r.Samples) < r.maxSamp
}

// Violate records a violation; at most 5 witnesses are kept per key, the
// rest are only counted.
func (r *Report) Violate(key, what string, witness interface{}) {
	r.mu.Lock()
	defer r.mu.Unlock()
	kind := what
	if len(kind) > 48 {
		kind = kind[:48]
	}
	r.vcount[key+"|"+kind]++
	r.Counters["violations:"+key]++
	if r.vcount[key+"|"+kind] <= 4 {
		r.Violations = append(r.Violations, Violation{key, what, witness})
	}
}

// Journal writes a line describing the input about to be tried (unbuffered).
func (r *Report) Journal(x interface{}) {
	if r.journal == nil {
		return
	}
	b, err := json.Marshal(x)
	if err != nil {
		b = []byte(fmt.Sprintf("%q", fmt.Sprint(x)))
	}
	r.mu.Lock()
	r.journal.Write(append(b, '\n'))
	r.mu.Unlock()
}

// WritePartial stores what has been collected so far with Done=false (used
// before a call that may kill the process).
func (r *Report) WritePartial() { r.write(false) }

// Write stores the report; Done tells the driver the child reached its end.
func (r *Report) Write() { r.write(true) }

func (r *Report) write(done bool) {
	r.mu.Lock()
	defer r.mu.Unlock()
	r.NonTrivial = r.NonTrivial[:0]
	for h := range r.nt {
		r.NonTrivial = append(r.NonTrivial, strconv.FormatUint(h, 16))
	}
	r.Done = done
	r.WallS = time.Since(r.start).Seconds()
	b, err := json.Marshal(r)
	if err != nil {
		fmt.Fprintln(os.Stderr, "rep: cannot marshal report:", err)
		os.Exit(3)
	}
	p := filepath.Join(r.out, fmt.Sprintf("report-%s-%d.json", r.Stage, r.Batch))
	if err := ioutil.WriteFile(p, b, 0644); err != nil {
		fmt.Fprintln(os.Stderr, "rep: cannot write report:", err)
		os.Exit(3)
	}
}

// J is a convenience for building witness objects.
type J map[string]interface{}
