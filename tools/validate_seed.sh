#!/bin/bash
# Confirms a seeded change and tries the checks on it.
# usage: validate_seed.sh <name> <patch.diff> <demo file> <placement rel. path> <go test pkg> <run pattern> <check id>...
# Steps: fresh worktree of /repo HEAD; demo passes without the patch; patch applies and builds; demo fails with it;
# stock suite passes with it (demo removed); then each check runs against the worktree (VERIF_REPO).
export GOFLAGS=-mod=mod GOPROXY=off GOSUMDB=off GOTOOLCHAIN=local
NAME=$1; PATCH=$(readlink -f $2); DEMO=$(readlink -f $3); PLACE=$4; PKG=$5; RUN=$6; shift 6
WT=$(mktemp -d /tmp/seedwt-XXXX); rmdir $WT
git -C /repo worktree add -q --detach $WT HEAD || exit 2
trap 'git -C /repo worktree remove --force $WT; rm -rf $OUT' EXIT
OUT=$(mktemp -d /tmp/seedout-XXXX)
RACE="${DEMO_RACE:+-race} ${DEMO_ARGS}"
cp $DEMO $WT/$PLACE
(cd $WT && go test $RACE -vet=off -count=1 -run "$RUN" $PKG > $OUT/demo-without.log 2>&1); rc0=$?
echo "[$NAME] demo WITHOUT the change: rc=$rc0 (want 0)"
if ! git -C $WT apply $PATCH; then echo "[$NAME] PATCH DOES NOT APPLY"; exit 2; fi
(cd $WT && go build ./... > $OUT/build.log 2>&1) || { echo "[$NAME] DOES NOT BUILD"; cat $OUT/build.log | head; exit 2; }
(cd $WT && go test $RACE -vet=off -count=1 -run "$RUN" $PKG > $OUT/demo-with.log 2>&1); rc1=$?
echo "[$NAME] demo WITH the change: rc=$rc1 (want non-zero)  :: $(grep -m3 -- '--- FAIL\|FAIL\|DATA RACE' $OUT/demo-with.log | tr '\n' ' ' | cut -c1-160)"
rm -f $WT/$PLACE
/verif/tools/stock_suite.sh $WT > $OUT/suite.log 2>&1; rcs=$?
echo "[$NAME] stock suite with the change: rc=$rcs :: $(head -3 $OUT/suite.log | tr '\n' ' ' | cut -c1-200)"
export VERIF_REPO=$WT VERIF_OUTDIR=$OUT
for id in "$@"; do
  for seed in ${SEEDS:-1}; do
   VERIF_SEED=$seed /verif/check $id ${TIER:-quick} > $OUT/$id.log 2>&1; rc=$?
   echo "[$NAME] check $id ${TIER:-quick} seed=$seed: rc=$rc, $(grep -c '^VIOLATION' $OUT/$id.log) VIOLATION lines"
   grep "violation \[\|violations of the kind\|BROKEN" $OUT/$id.log | cut -c1-230 | head -5
  done
done
echo "[$NAME] SUMMARY demo_without=$rc0 demo_with=$rc1 suite=$rcs"
