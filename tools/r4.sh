#!/bin/bash
# usage: r4.sh <Cxx> <A|B> <name> <check id>...   -- validates a round-4 seed (demo both ways, stock suite) and tries the checks on it
P=$1; AB=$2; NAME=$3; shift 3
D=/tmp/wt4/$P/seed_demo
mkdir -p /tmp/r4notes; cp $D/NOTES.md /tmp/r4notes/$P.md 2>/dev/null; for f in $D/side*.txt; do [ -e "$f" ] && cp $f /tmp/r4notes/$P-$(basename $f); done
/verif/tools/auto_validate.sh $D $AB $NAME 2>&1 | grep "SUMMARY\|cannot parse\|DOES NOT"
SEEDS="${SEEDS:-1}" /verif/tools/try_seed.sh $D/$AB.diff "$@" 2>&1 | grep "^== \|violation \[" | cut -c1-220 | head -8
