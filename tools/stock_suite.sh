#!/bin/bash
# Runs the repository's stock test suite (hooks guard OFF) and compares with
# the stable_pass list of /root/.vp/BASELINE.json.  usage: stock_suite.sh [repo-dir]
export GOFLAGS=-mod=mod GOPROXY=off GOSUMDB=off GOTOOLCHAIN=local
R=${1:-/repo}
OUT=$(mktemp)
(cd "$R" && go test -mod=mod -json -vet=off -count=1 -timeout 25m ./... > "$OUT" 2>/dev/null)
python3 - "$OUT" <<'P'
import json,sys
want=set(json.load(open('/root/.vp/BASELINE.json'))['stable_pass'])
res={}
for l in open(sys.argv[1]):
    try: e=json.loads(l)
    except Exception: continue
    if e.get('Test') and e.get('Action') in('pass','fail','skip'):
        res[e['Package']+'::'+e['Test']]=e['Action']
bad=[t for t in sorted(want) if res.get(t)!='pass']
print("stock suite: %d/%d of the baseline tests pass"%(len(want)-len(bad),len(want)))
for t in bad: print("  NOT PASSING:",t,res.get(t))
sys.exit(1 if bad else 0)
P
rc=$?
rm -f "$OUT"
exit $rc
