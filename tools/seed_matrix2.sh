#!/bin/bash
# Runs tools/seed_matrix.sh logic for all seeds in two parallel halves (C01-C10, C11-C20) and writes seeded/RESULTS.txt.
cd /verif
half() {
  out=$1; shift
  : > $out
  for p in "$@"; do
    for d in seeded/${p}?/; do
      n=$(basename $d)
      [ -e $d/RETIRED ] && { echo "$n retired (see meta.json)" >> $out; continue; }
      ids=$(python3 -c "import json;print(' '.join(json.load(open('$d/meta.json'))['caught_by']))")
      res=$(tools/try_seed.sh $d/patch.diff $ids 2>&1 | grep '^== ' | sed 's/ :: .*//' | tr '\n' ';')
      echo "$n (HEAD $(git -C /repo rev-parse --short HEAD)) $res" >> $out
    done
  done
}
half /tmp/matrix-a.txt C01 C02 C03 C04 C05 C06 C07 C08 C09 C10 &
half /tmp/matrix-b.txt C11 C12 C13 C14 C15 C16 C17 C18 C19 C20 &
wait
cat /tmp/matrix-a.txt /tmp/matrix-b.txt > seeded/RESULTS.txt
echo done
