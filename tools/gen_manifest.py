#!/usr/bin/env python3
"""Regenerates /verif/MANIFEST.json from the table below (one entry per claimed property)."""
import json, subprocess
ALL = ["C%02d" % i for i in range(1, 21)]
CLAIMED = {
 "C18": dict(level="exploration", technique="metamorphic runtime differential: one logical request history rendered through 20 HTTP/batch/direct encodings and uri spellings, each on its own fresh engine behind httptest, compared with the direct service call and with a sys.System twin; negative-case matrix",
   text="Generated /api/loc/* requests with arguments that need URL/JSON/YAML escaping are sent as query parameters (three URI forms), form body, JSON body, YAML body sniffed at the operation URI, /api/json envelope, /api/yaml, batch element and whole-history batch, the uri also spelled without /api and with version prefixes wherever it travels as data; status and normalised JSON must equal the direct call and the results of the corresponding System calls; every missing / ill-typed parameter, non-string uri, unknown URI and failing operation must yield an error response in every rendering that can express it.",
   note="Generated ids and timing fields are normalised; renderings without JSON types (query, form) skip the ill-typed cases; events/retry and the admin/sys URIs are outside the /api/loc family exercised here.", ref="§5 C18"),
 "C17": dict(level="exploration", technique="twin-configuration differential over request histories (cache TTL x existence checking x state vs direct operation), forced and delayed schedules at verifhook points for concurrent first requests with load counting, porcupine register histories under overlapping requests; race detector",
   text="The same generated histories (including per-location cacheTTL properties and clearing a location) are run through the System under every cache setting and directly on locations and must agree request by request; concurrent first requests (seeded delays and a forced interleaving with an opener parked inside the loading gap) must load once and lose no acknowledged write; overlapping requests under never/short TTLs are checked as per-key register histories.",
   note="Loads are counted through GetStats().NewLocations, storage through PeekStorage; schedules are sampled plus one forced interleaving; stale instances after an eviction-in-use under finite TTLs are the open finding c17.release-evicts-in-use.", ref="§5 C17"),
 "C16": dict(level="exploration", technique="offline checker over timestamped Add/Rem/suspend/fire event logs of the running cron loop, structural invariant walks (Timeline under its lock; crolt jobs/time buckets key for key, also across close/reopen), overlay-injected in-package monitor for the Bolt-backed service",
   text="Directed and random operation sequences run against the real firing loop of the in-memory cron (race detector on) and against the Bolt-backed service with harness-driven ticks and, in a second phase, with a concurrent work() loop against an endpoint that holds requests open while Add/Delete/Get run (Deletes issued while the job's request is in flight); the logs are checked for early fires, fires after an early removal, exactly-once one-shots with canary-judged bounded progress, recurring jobs not ahead of their occurrences, and the pending structures are checked for sortedness, unique ids and bucket agreement after every operation and restart.",
   note="Bounded progress uses generous grace and a canary; crolt's due time is the time in the job's own key; crash points inside one bolt transaction are bolt's guarantee.", ref="§5 C16"),
 "C15": dict(level="exploration", technique="runtime monitor with a recording Cronner (harness implementation of cron.Cronner) and a model of live scheduled rules: registrations compared after every step, ticks delivered for every current and former registration; canary-judged timed scenario on the real built-in cron",
   text="Generated histories over three locations sharing rule ids (add / overwrite scheduled<->ordinary<->fact / remove / cascade / clear / reload, persistent and ephemeral cron, both states) are checked step by step: registered == live scheduled rules per location, a tick runs exactly its rule in its own location, one-shots run once and vanish, stale ticks run nothing; the built-in cron is exercised with +1s rules of one id in two locations.",
   note="The recorder keys by (location, id) to report what the engine asked for; stale registrations after cascade deletes and after expiry are open findings keyed by step kind.", ref="§5 C15"),
 "C09": dict(level="exploration", technique="non-interference monitor with a per-location reference model: after every operation of generated forest histories the own and inherited views of every location are compared; loop cases under a watchdog in their own child process",
   text="Histories spread over 3-6 locations with changing parent sets (chains, fans, diamonds) are run through SimpleLocationProvider and sys.System; an operation on one location must change the own view of no other and the inherited view exactly as the transitive-parent union says, events at a parent must not reach children, and looping chains must yield the loop error instead of recursing.",
   note="Trusts lib/ref per location; rule ids unique across locations; through the System a remove of an absent id is an unacknowledged (failed) operation.", ref="§5 C09"),
 "C07": dict(level="exploration", technique="timed runtime monitor with interval timestamps: every observation of a family of write / reload / observe schedules carries [before, after] and is judged only where the intervals make the verdict certain",
   text="Scenarios over item kind x expiry encoding x state x schedule place reads, reloads and the expiry instant in every order; the reported expiry must be the one fixed at write and never move, items must be visible certainly-before and invisible certainly-after it, purged from storage once observed expired, items without expiry stay, already-expired writes are rejected.",
   note="Whole-second clock: observations straddling the expiry second are accepted either way; sub-second boundary behaviour is out of reach.", ref="§5 C07"),
 "C06": dict(level="fault_enumeration", technique="fault and crash injection at the core.Storage boundary with a live-vs-reloaded differential: storage wrapper (snapshot after every write, fail call k), SIGKILL of a sub-process right after bolt write k, aliasing canary",
   text="For generated histories on {indexed, linear} x {memory, bolt} every prefix is a reload point, every storage write a crash point (judged per id: old or new value) and every storage call a fault point (the issuing operation must fail); within each history the enumeration of points is complete (bolt kill points sampled in quick, complete in thorough); histories themselves are sampled.",
   note="Trusts bolt's transaction atomicity; remote back ends out of reach; the live location is the reference for crash points.", ref="§5 C06"),
 "C20": dict(level="exploration", technique="offline checkers over timestamped event logs (sliding-window rate bound and recovery on [before, after] intervals), runtime invariants for capacity (size<=max, refusal without side effects) and throttle (at-most-once, pending bound), under the Go race detector",
   text="Capacity histories around MaxFacts (sequential, and concurrent adders of facts and rules meeting at the boundary), breaker runs with 1-16 concurrent callers and hostile arrival patterns logged with monotonic intervals and checked for any limit+1 admissions certainly inside one window and for refusals after certain age-out, and throttle runs with many submitters whose waiting is counted independently of the throttle's own counter by a probe around its breaker; held-on-K-runs assurance.",
   note="Breaker verdicts need certainty from interval arithmetic (no wall-clock deadlines); refusals after age-out that the breaker's own whole-tick accounting cannot exclude are attributed to the open finding c20.breaker-slide-drops-remainder.", ref="§5 C20"),
 "C11": dict(level="exploration", technique="Go race detector + sequential-twin differential over recorded per-client results: concurrent clients on disjoint locations of a fresh engine (sys.System and HTTP) vs the same sequences run alone; barrier start, injected delays, watchdog",
   text="Rounds of 8-16 clients, each owning one location and starting with the engine's very first requests, are run concurrently under the race detector and compared request by request and by final state with a sequential run on another fresh engine; crashes, hangs and race reports are violations.",
   note="Schedules are sampled, not enumerated; results are normalised (generated request ids, timing fields); engines are created sequentially by the harness.", ref="§5 C11"),
 "C12": dict(level="exploration", technique="offline linearizability checking (porcupine v1.3.0) of recorded client histories against a sequential model, Go race detector, injected delays at verifhook points, final live-vs-reloaded reads",
   text="Many short concurrent histories on shared ids of one location are recorded at the API boundary with unique written values and checked for linearizability, including agreement of the final in-memory and stored states; the race detector and the child's exit status cover the crash / data-race clauses; a porcupine timeout is inconclusive.",
   note="Schedules are sampled (stress + seeded delays), not enumerated; the sequential model in mon/c12 is trusted; strict-fail/relaxed-pass histories are attributed to the open finding c12.pe-two-instant; expiry during concurrent access is not in the workload.", ref="§5 C12"),
 "C13": dict(level="exploration", technique="grammar-based hostile-input fuzzing with a crash / hang / canary oracle: per-call watchdog and panic capture, child-process exit status with last-journaled input, canary traffic after every input",
   text="Hostile documents are pushed through every fact/rule/search/query/event entry point of core.Location, sys.System and the HTTP service; each call must return within the watchdog without a panic, HTTP must answer, and the location must keep serving a fixed canary sequence; process-fatal failures are attributed through the journal.",
   note="Totality is sampled, not enumerated; the strict canary runs after the accepted input has been removed again; the sheens stack-overflow recursion is an open known finding confined to its own child.", ref="§5 C13"),
 "C14": dict(level="exploration", technique="runtime monitor with canary-judged bounded progress: script families x timeout settings x positions executed on the real engine, outcome and return time observed at the API boundary",
   text="Each script family (value, throwing, invalid, non-terminating, slow-but-finishing) is run as RunJavascript, as a rule condition and as a rule action under a location-control timeout, the system default and with timeouts disabled; non-terminating scripts must come back as failures not before and boundedly after the limit, throwing/invalid ones as errors, finishing ones with their value and exactly their bindings.",
   note="A hang is a violation only when a canary timer armed in the same runtime fired on time and the call is still blocked 12 s later; scripts blocked inside host functions are out of reach.", ref="§5 C14"),
 "C19": dict(level="exploration", technique="runtime matrix monitor with a twin-location differential: every operation x protection state x caller, before/after snapshots of raw storage and live items for refusals, unprotected twin for allowed calls",
   text="All 26 operations (direct, via RunJavascript, via a rule action, the self-removal of a triggered one-shot rule) are executed under all 6 protection states and 3 callers on generated contents of both state kinds; a refusal must be an error with byte-identical storage and live state, an allowed call must equal the unprotected twin; a second matrix issues 8 inherited reads at an unprotected child of a parent in 5 protection states: without the parent's read key nothing of the parent may be revealed; the finite matrices are enumerated completely per content seed.",
   note="Matrix as stated in DESIGN §5 C19 (RuleEnabled, GetParents, SetProp/RemProp and StateSize-when-disabled are outside it); core.Location level.", ref="§5 C19"),
 "C04": dict(level="exploration", technique="exactly-once / conservation monitor over three independent execution records (Env.out side channel, work tree, values) vs the expected multiset, run under the Go race detector",
   text="For generated worlds of rules, facts and events the multiset of action executions observed through a side channel, the returned work tree and the values list must all equal rules x when-bindings x condition-bindings x actions, each with the expected environment; failing actions must fail on their own node only; the race detector watches the concurrent action execution.",
   note="Expected multiset from lib/ref; action scripts from a template; serial rules with a failing action are only checked for conservation and no-extra-execution.", ref="§5 C04"),
 "C03": dict(level="exploration", technique="differential runtime oracle: Location.Query and rule-condition evaluation inside ProcessEvent vs a reference query evaluator on generated query programs",
   text="Generated query trees (and/or/not/pattern/code, shortCircuit, empty operators, shared variables, inherited facts) are executed by the real engine through two entry points and compared as multisets of bindings with an evaluator written from the property statement; held-on-K-programs assurance for a compositional-semantics claim.",
   note="Trusts lib/ref.Eval and lib/ref.Match; code leaves restricted to a family with known value; facts are flat (scalars and scalar arrays).", ref="§5 C03"),
 "C10": dict(level="exploration", technique="runtime monitor with a per-id lifecycle state-machine model: ProcessEvent action values (version tags), RuleEnabled, ListRules and the disabled-location error matrix checked after every step of generated walks",
   text="Generated walks through add/overwrite/remove/disable/enable/reload/location toggles are executed on real locations (both states, with and without a parent); after every step an event per rule id must run exactly the live, enabled, latest version; held-on-K-steps assurance for a safety property over all paths of the lifecycle machine.",
   note="Trusts the lifecycle model stated in DESIGN §5 C10 (flag belongs to the id); JavaScript actions return constant tags.", ref="§5 C10"),
 "C08": dict(level="exploration", technique="runtime differential + structural invariant at quiescent points: live state, MemStorage contents and ListRules vs the model's dependency closure after every deletion; per-call watchdog for termination",
   text="Generated dependency graphs (cycles, self-loops, dangling targets, rules, property facts, variable-looking ids) are built in real locations of both state kinds; after each explicit, dependent or expiry-triggered deletion the survivors in memory and in storage must equal the model closure and the call must return.",
   note="Trusts lib/ref.Loc.Rem; MemStorage only (durability across back ends is C06); expiry cascades use ttl 1 s observed after 2.2 s.", ref="§5 C08"),
 "C02": dict(level="exploration", technique="differential runtime oracle over generated histories: SearchFacts/GetFact/AddFact/RemFact on indexed and linear state in lock-step vs a reference location model + brute-force matcher; generated-id freshness monitor",
   text="Every operation of generated add/overwrite/remove/get/search histories is executed on both state implementations and compared with the model (result sets of (id, bindings), get values, ids); held-on-K-operations assurance for a for-all-histories claim about a candidate-filter index.",
   note="Trusts lib/ref; facts without variable-looking strings and without ttl/expires; three open known findings classified by pattern shape.", ref="§5 C02"),
 "C01": dict(level="exploration", technique="differential runtime oracle over generated operation histories: real dispatch (FindRules.Do / ProcessEvent, indexed and linear state, with parents) vs a reference location model + brute-force matcher",
   text="After every step of generated add/replace/remove/overwrite/enable/clear histories a batch of events derived from current and former `when` patterns is dispatched through the real location and compared (ids and binding sets) with the model; held-on-K-observations assurance for a for-all-histories claim.",
   note="Trusts lib/ref (matcher + location model); only the documented {when:{pattern}} rule form; bindings compared with arrays as sets; three open known findings are classified by input shape.", ref="§5 C01"),
 "C05": dict(level="exploration", technique="differential runtime oracle: core.Match vs an independent brute-force reference matcher on generated inputs, plus a non-mutation monitor",
   text="Every generated (pattern, data, initial bindings, Go typing) case is executed on the real matcher and compared as a set of bindings with a 60-line reference enumerator; held-on-K-cases assurance, the right level for a for-all-inputs claim about a dependency-backed function that cannot be enumerated.",
   note="Trusts lib/ref.Match as the specification and the generator's fragment; the sheens repeated-variable behaviour is an open known finding judged through a named relaxed model (MatchLoose).", ref="§5 C05"),
}
PENDING_REASON = "not claimed"
def main():
    checks = []
    for pid in ALL:
        if pid not in CLAIMED: continue
        c = CLAIMED[pid]
        checks.append({
            "property_id": pid,
            "quick_cmd": "./check %s quick" % pid,
            "thorough_cmd": "./check %s thorough" % pid,
            "evidence_file": "/verif/evidence/%s.json" % pid,
            "replay_cmd_template": "./check %s --replay {path}" % pid,
            "engine": "vcheck",
            "level_claimed": {"category": c["level"], "text": c["text"], "design_ref": c["ref"]},
            "level_note": c["note"],
            "technique": c["technique"],
        })
    commits = subprocess.run(["git", "-C", "/repo", "log", "--format=%h %s", "--grep=^hook:"], capture_output=True, text=True).stdout.strip().splitlines()
    m = {
        "version": 1,
        "setup_cmd": "./check --setup",
        "hooks": {
            "guard": "verif",
            "enable": "go build/test -tags verif (the driver always passes it)",
            "baseline_off_cmd": "/verif/tools/stock_suite.sh",
            "source_commits": [c.split()[0] for c in commits],
            "add_only": True,
        },
        "engines": [{"name": "vcheck", "path": "/verif/harness/cmd/vcheck", "serves_properties": sorted(CLAIMED),
                     "kind_free_text": "Go driver: rebuilds monitors against /repo (replace directive / -overlay), runs child processes under the race detector, aggregates reports, journals, race logs; classifies against KNOWN_FINDINGS.txt; writes evidence"}],
        "checks": checks,
        "notes": "Runtime monitoring and sanitizers only. exit 0 held / 1 VIOLATION / 2 broken-or-inconclusive run. VERIF_SEED selects the PRNG seed.",
        "not_applicable": [{"property_id": p, "reason": PENDING_REASON} for p in ALL if p not in CLAIMED],
    }
    json.dump(m, open("/verif/MANIFEST.json", "w"), indent=1)
    print("MANIFEST.json: %d checks, %d not_applicable" % (len(checks), len(m["not_applicable"])))
main()
