#!/bin/bash
# Background sweep: runs every check at the given tier and seeds, evidence and
# replays redirected to a scratch directory.  usage: sweep.sh <tier> <seed>... 
TIER=$1; shift
OUT=$(mktemp -d /tmp/verif-sweep-XXXX)
export VERIF_OUTDIR=$OUT
for seed in "$@"; do
  for id in C01 C02 C03 C04 C05 C06 C07 C08 C09 C10 C11 C12 C13 C14 C15 C16 C17 C18 C19 C20; do
    S=$(date +%s)
    VERIF_SEED=$seed /verif/check $id $TIER > $OUT/$id-$seed.log 2>&1
    rc=$?
    echo "seed=$seed $id $TIER rc=$rc $(( $(date +%s) - S ))s :: $(grep -c '^VIOLATION' $OUT/$id-$seed.log) violation lines :: $(tail -1 $OUT/$id-$seed.log | cut -c1-200)"
    if [ $rc -ne 0 ]; then grep -v '^KNOWN' $OUT/$id-$seed.log | head -12 | cut -c1-300; cp $OUT/$id-$seed.log /tmp/lastfail-$id-$seed.log; fi
  done
done
rm -rf $OUT
