#!/bin/bash
# Every seeded change must still apply to /repo's HEAD (git -C /repo apply --check).
rc=0
for d in /verif/seeded/*/; do
  [ -e ${d}RETIRED ] && { echo "retired (see meta.json): $d"; continue; }
  git -C /repo apply --check ${d}patch.diff 2>/dev/null || { echo "DOES NOT APPLY: $d"; rc=1; }
done
[ $rc = 0 ] && echo "all $(ls -d /verif/seeded/*/ | wc -l) seeded patches apply to $(git -C /repo rev-parse --short HEAD)"
exit $rc
