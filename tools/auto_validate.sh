#!/bin/bash
# usage: auto_validate.sh <seed_demo dir> <A|B> <name>   -- parses the demo's first line
#   "// Place this file at <path> and run: go test -vet=off -count=1 [flags] -run '<regexp>' ./<pkg>/"
# and calls validate_seed.sh (demo passes without / fails with the change, stock suite with the change).
D=$1; AB=$2; NAME=$3
DEMO=$D/demo${AB}_test.go.txt
L=$(head -n 1 $DEMO)
PLACE=$(echo "$L" | sed -n 's/.*Place this file at *\([^ ]*\).*/\1/p')
RUN=$(echo "$L" | sed -n "s/.*-run *'\([^']*\)'.*/\1/p")
PKG=$(echo "$L" | grep -o '\./[a-z/]*/' | tail -n 1)
RACE=""; echo "$L" | grep -q -- "-race" && RACE=1
ARGS=""; echo "$L" | grep -q -- "-tags verif" && ARGS="-tags verif"
echo "$L" | grep -q -- "checkptr=0" && ARGS="$ARGS -gcflags=all=-d=checkptr=0"
if [ -z "$PLACE" ] || [ -z "$RUN" ] || [ -z "$PKG" ]; then echo "[$NAME] cannot parse: $L"; exit 2; fi
echo "[$NAME] place=$PLACE run=$RUN pkg=$PKG race=$RACE args=$ARGS"
DEMO_RACE=$RACE DEMO_ARGS="$ARGS" /verif/tools/validate_seed.sh $NAME $D/$AB.diff $DEMO $PLACE $PKG "$RUN" 2>&1 | tail -n 5
