#!/usr/bin/env python3
"""save_seed.py <name> <property> <patch> <demo> <placement> <pkg> <run pattern> <needs> <result> [<note>]
Stores a confirmed seeded change under /verif/seeded/<name>/ (patch.diff, demo, meta.json)."""
import sys, os, shutil, json, subprocess
name, prop, patch, demo, place, pkg, run, needs, result = sys.argv[1:10]
note = sys.argv[10] if len(sys.argv) > 10 else ""
d = "/verif/seeded/" + name
os.makedirs(d, exist_ok=True)
shutil.copy(patch, d + "/patch.diff")
shutil.copy(demo, d + "/" + os.path.basename(place) + ".txt")
head = subprocess.run(["git", "-C", "/repo", "rev-parse", "--short", "HEAD"], capture_output=True, text=True).stdout.strip()
meta = {
 "name": name, "breaks_property": prop,
 "origin": "written by an independent sub-agent that was given only the property text and its own worktree",
 "needs_to_manifest": needs,
 "demonstration": {"file": os.path.basename(place) + ".txt", "place_at": place,
                   "run": "go test -vet=off -count=1 -run '%s' %s" % (run, pkg),
                   "confirmed": "passes on /repo HEAD %s without the change, fails with it; stock suite 197/197 with the change (tools/validate_seed.sh)" % head},
 "checks_run": result, "note": note,
}
json.dump(meta, open(d + "/meta.json", "w"), indent=1)
print("saved", d)
