#!/bin/bash
# Runs every seeded change against the checks named in its meta.json ("caught_by") on a scratch
# worktree and writes one line per (seed, check) to seeded/RESULTS.txt.  usage: seed_matrix.sh [name-prefix]
# Takes about an hour for all 80.
cd /verif
OUT=/verif/seeded/RESULTS.txt
[ -z "$1" ] && : > $OUT.new
for d in seeded/${1}*/; do
  n=$(basename $d)
  [ -e $d/RETIRED ] && { echo "$n retired (see meta.json)" | tee -a $OUT.new; continue; }
  ids=$(python3 -c "import json;print(' '.join(json.load(open('$d/meta.json'))['caught_by']))")
  res=$(tools/try_seed.sh $d/patch.diff $ids 2>&1 | grep '^== ' | sed 's/ :: .*//' | tr '\n' ';')
  echo "$n (HEAD $(git -C /repo rev-parse --short HEAD)) $res" | tee -a $OUT.new
done
[ -z "$1" ] && mv $OUT.new $OUT
