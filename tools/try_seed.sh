#!/bin/bash
# Tries a seeded change: applies <patch> to a scratch worktree of /repo's HEAD, runs the given checks
# (quick unless TIER is set) against that worktree with evidence/replays redirected, prints the verdicts, removes the worktree.
# usage: try_seed.sh <patch.diff> <id> [<id> ...]      env: TIER=quick|thorough SEEDS="1 2"
P=$(readlink -f "$1"); shift
WT=$(mktemp -d /tmp/seedwt-XXXX); rmdir $WT
git -C /repo worktree add -q --detach $WT HEAD || exit 2
if ! git -C $WT apply "$P"; then echo "patch does not apply"; git -C /repo worktree remove --force $WT; exit 2; fi
OUT=$(mktemp -d /tmp/seedout-XXXX)
export VERIF_REPO=$WT VERIF_OUTDIR=$OUT
for seed in ${SEEDS:-1}; do
 for id in "$@"; do
  VERIF_SEED=$seed /verif/check $id ${TIER:-quick} > $OUT/$id.log 2>&1; rc=$?
  echo "== $id seed=$seed rc=$rc :: $(grep -c '^VIOLATION' $OUT/$id.log) VIOLATION lines"
  grep "violation \[\|violations of the kind\|BROKEN\|KNOWN-FINDING" $OUT/$id.log | cut -c1-260 | head -8
  tail -1 $OUT/$id.log | cut -c1-200
 done
done
git -C /repo worktree remove --force $WT; cp $OUT/*.log /tmp/ 2>/dev/null; rm -rf $OUT
